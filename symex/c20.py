"""C20: graphs may be mutated from inside edge loops and traversal callbacks.

Scenario: connect* ; (loop | search | order with a script fired at the k-th step) ; dump
"""
from logic import AND, OR, EQ
from nodeops import canon_sequences, used_nodes, invariants
from searches import abnormal
from runner import abnormal_kind

DIRECTED = ('digraph', 'sync_digraph')
FLAVOURS = ('digraph', 'sync_digraph', 'ungraph', 'sync_ungraph')


def script_ops(n, used):
    """scripted operations with canonical operand choices"""
    out = []
    lim = min(used + 1, n)
    for a in range(lim):
        out.append(['isolate', a])
        out.append(['query', a])
        out.append(['clone_drop', a])
        out.append(['search', {'alg': 'bfs', 'root': a, 'target': None, 'mode': 'path', 'method': 'none', 'transpose': False}])
        for b in range(min(max(used, a + 1) + 1, n)):
            out.append(['connect', a, b, {'s': 'enew'}])
            out.append(['try_connect', a, b, {'s': 'enew'}])
            out.append(['disconnect', a, b])
    return out


def loop_kinds(flavour):
    if flavour in DIRECTED:
        return ['iter_out', 'iter_in', 'into_iter', 'collect_out', 'collect_in', 'fold_out', 'fold_in']
    return ['iter', 'into_iter', 'collect_adj', 'fold_adj']


def traversals(flavour, tier):
    out = []
    for alg in ('bfs', 'dfs', 'pfs'):
        out.append(('search', {'alg': alg, 'target': None, 'mode': 'path', 'method': 'foreach', 'transpose': False}))
    out.append(('search', {'alg': 'bfs', 'target': None, 'mode': 'path', 'method': 'filter', 'transpose': False, 'filter': {'table': [], 'default': True}}))
    out.append(('search', {'alg': 'dfs', 'target': None, 'mode': 'cycle', 'method': 'foreach', 'transpose': False}))
    for kind in ('pre', 'post'):
        out.append(('order', {'kind': kind, 'mode': 'nodes', 'method': 'foreach', 'transpose': False}))
    if tier == 'thorough':
        out.append(('search', {'alg': 'dfs', 'target': None, 'mode': 'path', 'method': 'filter', 'transpose': False, 'filter': {'table': [], 'default': True}}))
        out.append(('search', {'alg': 'pfs', 'prio': 'max', 'target': None, 'mode': 'path', 'method': 'foreach', 'transpose': False}))
        if flavour in DIRECTED:
            out.append(('search', {'alg': 'bfs', 'target': None, 'mode': 'path', 'method': 'foreach', 'transpose': True}))
            out.append(('order', {'kind': 'post', 'mode': 'edges', 'method': 'foreach', 'transpose': True}))
    return out


def scenarios(flavour, n, max_edges, ats, tier, n_script=1):
    for seq in canon_sequences(n, max_edges):
        used = used_nodes(seq)
        pre = [['connect', u, v, {'s': f'e{j}'}] for j, (u, v) in enumerate(seq)]
        nodes = [[i, 100 + i] for i in range(n)]
        ops = script_ops(n, used)
        scripts = [[o] for o in ops]
        if n_script == 'cc':
            # two connects in one step: the lists grow by more than the loop advances
            scripts = [[a, b] for a in ops for b in ops if a[0] == 'connect' and b[0] == 'connect']
        if n_script == 2:
            scripts += [[a, b] for a in ops for b in ops if a[0] in ('connect', 'disconnect', 'isolate') and b[0] in ('connect', 'disconnect', 'isolate')]
        for root in range(min(used + 1, n)):
            for at in ats:
                for script in scripts:
                    for lk in loop_kinds(flavour):
                        st = ['loop', {'kind': lk, 'node': root, 'at': at, 'script': script}]
                        yield (flavour, 'loop', lk), {'flavour': flavour, 'nodes': nodes, 'steps': pre + [st, ['dump']],
                                                     'meta': {'seq': seq, 'loop': lk, 'script': [s[0] for s in script]}}
                    for step, spec in traversals(flavour, tier):
                        sp = dict(spec)
                        sp['root'] = root
                        sp['script'] = {'at': at, 'steps': script}
                        name = sp.get('alg') or ('order-' + sp['kind'])
                        yield (flavour, step, name, sp['method']), {
                            'flavour': flavour, 'nodes': nodes, 'steps': pre + [[step, sp], ['dump']],
                            'meta': {'seq': seq, 'loop': name + '/' + sp['method'] + ('/' + sp['mode'] if sp['mode'] == 'cycle' else ''),
                                     'script': [s[0] for s in script]}}


def evaluate(prop, scen, obs, ctx):
    fl = scen['flavour']
    ab = abnormal(obs)
    m = scen['meta']
    where = f'{m["loop"]} with script {m["script"]}'
    if ab:
        c, msg, kind = ab[0]
        return [(False, f'{where}: {msg}', 'abnormal')]
    loop_obs, dump = obs[-2], obs[-1]
    cs = []
    # script step results must not be abnormal (they are plain observations here) and every yielded edge exists
    ys = loop_obs.get('yields') if 'yields' in loop_obs else loop_obs.get('calls')
    for y in ys:
        ok = y[-1]
        cs.append((ok, f'{where}: yielded / handed over edge {y[0]}->{y[1]} does not exist at that moment', 'stale-edge'))
    so = loop_obs.get('script')
    if so:
        for o in so:
            if abnormal_kind(o):
                cs.append((False, f'{where}: scripted operation ended abnormally: {o}', 'abnormal'))
    for c, msg in invariants(fl, dump):
        cs.append((c, f'{where}: afterwards: {msg}', 'invariant'))
    return cs


def sig_of(f):
    m = f['scen']['meta']
    return {'flavour': f['scen']['flavour'], 'loop': m['loop'], 'script': m['script'][0], 'kind': f['kind']}


def run(prop, tier, seed):
    from scheck import scenario_check
    items = []
    for fl in FLAVOURS:
        if tier == 'quick':
            items += list(scenarios(fl, 3, 2, (0, 1), tier))
            items += list(scenarios(fl, 3, 1, (0, 1), tier, n_script='cc'))
        else:
            items += list(scenarios(fl, 3, 3, (0, 1, 2), tier))
            items += list(scenarios(fl, 3, 1, (0, 1), tier, n_script=2))
    cells = sorted({str(c) for c, _ in items})
    return scenario_check(
        prop, tier, seed, items, evaluate, sig_of,
        bounds={'nodes': 3, 'max_edges': 2 if tier == 'quick' else 3, 'script_length': '1 (and two connects on <=1-edge graphs)' if tier == 'quick' else '1 (and 2 on <=1-edge graphs)',
                'fires_at_step': [0, 1] if tier == 'quick' else [0, 1, 2],
                'loops': 'iter_out, iter_in, iter, for .. in &node, `.map(..).collect()` over the edge iterators (std consults size_hint there) and `.for_each(..)` (internal iteration: through the own `fold` of the iterator type when it has one); bfs/dfs/pfs search_path, dfs search_cycle, pre/postorder with for_each; bfs with filter',
                'scripted_ops': 'connect, try_connect, disconnect, isolate on any nodes; degree/predicate/lookup queries; nested bfs; clone+drop',
                'symbolic': 'edge values', 'outside': 'container operations inside loops; longer scripts; scripts firing more than once'},
        assumptions=['std models of engine A', 'the script fires once, so the closure stops adding edges by construction'],
        rule='work item = (connect sequence, loop or traversal kind, node, step at which the script fires, scripted operation with operands); assertion per yielded edge: it is an entry of its source\'s current list (z3), no panic / self-deadlock / budget overrun, invariants afterwards',
        expected_cells=cells, chunksize=32)
