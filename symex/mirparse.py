"""Parser for rustc -Zunpretty=mir text dumps (rustc 1.95).  Prototype."""
import re
from dataclasses import dataclass, field
from typing import Any, List, Optional, Tuple, Dict


# ---------------------------------------------------------------- AST
@dataclass
class Place:
    local: int
    proj: Tuple[Any, ...] = ()      # ('deref',) ('f', i) ('variant', name) ('idx', local) ('cidx', n)


@dataclass
class Operand:
    kind: str                       # 'copy' 'move' 'const'
    place: Optional[Place] = None
    const: Any = None               # parsed constant (python int/bool/str/bytes or ('zst', text) / ('raw', text))


@dataclass
class Rvalue:
    kind: str
    args: Tuple[Any, ...] = ()
    text: str = ''


@dataclass
class Stmt:
    place: Place
    rv: Rvalue
    text: str = ''


@dataclass
class Term:
    kind: str
    # goto: target ; switch: op, [(val, bb)], otherwise ; call: dest, callee(str) / callee_op, args, ret, ; drop: place, target
    # assert: cond(op), expected(bool), msg, target ; return ; unreachable ; resume
    d: Dict[str, Any] = field(default_factory=dict)
    text: str = ''


@dataclass
class Block:
    stmts: List[Stmt]
    term: Term
    cleanup: bool = False


@dataclass
class Func:
    name: str
    params: List[Tuple[int, str]]
    ret: str
    locals: Dict[int, str]
    blocks: Dict[int, Block]
    header: str = ''


# ---------------------------------------------------------------- helpers
OPEN = '([<{'
CLOSE = ')]>}'


def split_top(s: str, sep: str = ',') -> List[str]:
    """split at top-level separators, respecting brackets, quotes, and '->'."""
    out, depth, cur, i, n = [], 0, [], 0, len(s)
    while i < n:
        c = s[i]
        if c == '"' or (c == 'b' and i + 1 < n and s[i + 1] == '"' and (i == 0 or not s[i - 1].isalnum())):
            j = i + (2 if c == 'b' else 1)
            while j < n and s[j] != '"':
                j += 2 if s[j] == '\\' else 1
            cur.append(s[i:j + 1]); i = j + 1; continue
        if c == "'" and i + 2 < n:
            # char literal like '\n' or 'x' (lifetimes 'a are followed by ident chars without closing quote)
            m = re.match(r"'(\\.|[^'\\])'", s[i:])
            if m:
                cur.append(m.group(0)); i += len(m.group(0)); continue
        if c == '-' and i + 1 < n and s[i + 1] == '>':
            cur.append('->'); i += 2; continue
        if c in OPEN:
            depth += 1
        elif c in CLOSE:
            depth -= 1
        if c == sep and depth == 0:
            out.append(''.join(cur).strip()); cur = []
        else:
            cur.append(c)
        i += 1
    t = ''.join(cur).strip()
    if t:
        out.append(t)
    return out


def match_close(s: str, i: int) -> int:
    """s[i] is an opening bracket; return index of matching close (quote- and arrow-aware)."""
    depth, n = 0, len(s)
    while i < n:
        c = s[i]
        if c == '"':
            j = i + 1
            while j < n and s[j] != '"':
                j += 2 if s[j] == '\\' else 1
            i = j + 1; continue
        if c == "'":
            m = re.match(r"'(\\.|[^'\\])'", s[i:])
            if m:
                i += len(m.group(0)); continue
        if c == '-' and i + 1 < n and s[i + 1] == '>':
            i += 2; continue
        if c in OPEN:
            depth += 1
        elif c in CLOSE:
            depth -= 1
            if depth == 0:
                return i
        i += 1
    raise ValueError('unbalanced: ' + s)


def parse_place(s: str) -> Place:
    s = s.strip()
    p, rest = _place(s)
    if rest.strip():
        raise ValueError(f'trailing in place {s!r}: {rest!r}')
    return p


def _place(s: str):
    s = s.lstrip()
    if s.startswith('_'):
        m = re.match(r'_(\d+)', s)
        pl = Place(int(m.group(1)))
        rest = s[m.end():]
    elif s.startswith('(*'):
        end = match_close(s, 0)
        inner = parse_place(s[2:end])
        pl = Place(inner.local, inner.proj + (('deref',),))
        rest = s[end + 1:]
    elif s.startswith('('):
        end = match_close(s, 0)
        body = s[1:end]
        inner, r = _place(body)
        r = r.lstrip()
        if r.startswith('.'):
            m = re.match(r'\.(\d+)\s*:', r)
            pl = Place(inner.local, inner.proj + (('f', int(m.group(1))),))
        elif r.startswith('as '):
            m = re.match(r'as\s+(\w+)', r)
            pl = Place(inner.local, inner.proj + (('variant', m.group(1)),))
        else:
            raise ValueError('place? ' + s)
        rest = s[end + 1:]
    else:
        raise ValueError('place? ' + s)
    # postfix index
    while True:
        r = rest.lstrip()
        m = re.match(r'\[_(\d+)\]', r)
        if m:
            pl = Place(pl.local, pl.proj + (('idx', int(m.group(1))),)); rest = r[m.end():]; continue
        m = re.match(r'\[(\d+) of (\d+)\]', r)
        if m:
            pl = Place(pl.local, pl.proj + (('cidx', int(m.group(1))),)); rest = r[m.end():]; continue
        break
    return pl, rest


def parse_const(t: str):
    t = t.strip()
    if t in ('true', 'false'):
        return t == 'true'
    m = re.match(r'^(-?\d+)_(usize|isize|u8|u16|u32|u64|u128|i8|i16|i32|i64|i128)$', t)
    if m:
        return int(m.group(1))
    if t == '()':
        return ('unit',)
    if t.startswith('"'):
        return ('str', bytes(t[1:-1], 'utf-8').decode('unicode_escape'))
    if t.startswith('b"'):
        return ('bytes', eval(t))     # python byte-literal syntax is compatible for these dumps
    if t.startswith("'"):
        return ('char', bytes(t[1:-1], 'utf-8').decode('unicode_escape'))
    if t.startswith('ZeroSized:'):
        return ('zst', t[len('ZeroSized:'):].strip())
    return ('raw', t)


def parse_operand(s: str) -> Operand:
    s = s.strip()
    if s.startswith('copy '):
        return Operand('copy', parse_place(s[5:]))
    if s.startswith('move '):
        return Operand('move', parse_place(s[5:]))
    if s.startswith('const '):
        return Operand('const', const=parse_const(s[6:]))
    if re.match(r'^[A-Za-z_<][\w:<>,& \'\[\]()]*$', s) and '::' in s:
        # a function item used as a value (`.map(drop)`): a zero-sized constant naming the function
        return Operand('const', const=('zst', s))
    raise ValueError('operand? ' + s)


BINOPS = {'Add', 'Sub', 'Mul', 'Div', 'Rem', 'BitAnd', 'BitOr', 'BitXor', 'Shl', 'Shr', 'Eq', 'Ne', 'Lt', 'Le', 'Gt',
          'Ge', 'AddWithOverflow', 'SubWithOverflow', 'MulWithOverflow', 'Offset', 'Cmp', 'AddUnchecked',
          'SubUnchecked', 'MulUnchecked'}
UNOPS = {'Not', 'Neg', 'PtrMetadata'}


def parse_rvalue(s: str) -> Rvalue:
    s = s.strip()
    if s.startswith(('copy ', 'move ', 'const ')):
        m = re.match(r'^(.*) as (.+?) \((\w+(?:\([\w, ]*\))?)\)$', s)
        if m and not s.startswith('const "'):
            try:
                return Rvalue('cast', (parse_operand(m.group(1)), m.group(2), m.group(3)), s)
            except ValueError:
                pass
        return Rvalue('use', (parse_operand(s),), s)
    if s.startswith('&raw '):
        mut = s.startswith('&raw mut ')
        return Rvalue('rawref', (parse_place(s[len('&raw mut ' if mut else '&raw const '):]), mut), s)
    if s.startswith('&mut '):
        return Rvalue('ref', (parse_place(s[5:]), True), s)
    if s.startswith('&'):
        body = s[1:].strip()
        if body.startswith('fake '):
            body = body[body.index(' ', 5) + 1:] if body.startswith('fake shallow') else body[5:]
        return Rvalue('ref', (parse_place(body), False), s)
    m = re.match(r'^discriminant\((.*)\)$', s)
    if m:
        return Rvalue('discr', (parse_place(m.group(1)),), s)
    m = re.match(r'^(\w+)\((.*)\)$', s)
    if m and m.group(1) in BINOPS:
        a, b = split_top(m.group(2))
        return Rvalue('binop', (m.group(1), parse_operand(a), parse_operand(b)), s)
    if m and m.group(1) in UNOPS:
        return Rvalue('unop', (m.group(1), parse_operand(m.group(2))), s)
    if m and m.group(1) == 'Len':
        return Rvalue('len', (parse_place(m.group(2)),), s)
    if s.startswith('(') and match_close(s, 0) == len(s) - 1:
        items = split_top(s[1:-1])
        return Rvalue('tuple', tuple(parse_operand(x) for x in items), s)
    if s.startswith('[') and match_close(s, 0) == len(s) - 1:
        body = s[1:-1]
        parts = split_top(body, ';')
        if len(parts) == 2:
            return Rvalue('repeat', (parse_operand(parts[0]), parts[1]), s)
        return Rvalue('array', tuple(parse_operand(x) for x in split_top(body)), s)
    # aggregate: Path::<..>::Variant(args) | Path { f: op, .. } | Path::Variant (unit) | {closure@..}
    if s.startswith('{closure@') or s.startswith('{coroutine@'):
        end = match_close(s, 0)
        rest = s[end + 1:].strip()
        fields = []
        if rest.startswith('{') and rest.endswith('}'):
            for item in split_top(rest[1:-1]):
                k, v = item.split(':', 1)
                fields.append((k.strip(), parse_operand(v)))
        return Rvalue('closure', (s[:end + 1], tuple(fields)), s)
    if s.endswith(')'):
        # find the '(' matching the final ')'
        depth = 0
        i = len(s) - 1
        # scan backwards for matching open of the last ')'
        j = _match_open(s, len(s) - 1)
        head = s[:j].strip()
        args = split_top(s[j + 1:-1])
        return Rvalue('adt', (head, tuple(parse_operand(x) for x in args), None), s)
    if s.endswith('}'):
        j = _match_open(s, len(s) - 1)
        head = s[:j].strip()
        fields = []
        for item in split_top(s[j + 1:-1]):
            k, v = item.split(':', 1)
            fields.append((k.strip(), parse_operand(v)))
        if head.startswith('{closure@'):
            return Rvalue('closure', (head, tuple(fields)), s)
        return Rvalue('adt', (head, tuple(v for _, v in fields), tuple(k for k, _ in fields)), s)
    # unit variant / unit struct
    return Rvalue('adt', (s, (), None), s)


def _match_open(s: str, j: int) -> int:
    """s[j] is a closing bracket; return index of its opener (simple scan from left using match_close)."""
    i = 0
    n = len(s)
    while i < n:
        c = s[i]
        if c == '"':
            k = i + 1
            while k < n and s[k] != '"':
                k += 2 if s[k] == '\\' else 1
            i = k + 1; continue
        if c == '-' and i + 1 < n and s[i + 1] == '>':
            i += 2; continue
        if c in OPEN:
            e = match_close(s, i)
            if e == j:
                return i
            if e > j:
                i += 1; continue      # opener encloses j; descend
            i = e + 1; continue
        i += 1
    raise ValueError('no opener for ' + s)


RE_TARGETS = re.compile(r'->\s*(\[.*\]|unwind.*|bb\d+)\s*$')


def parse_term(s: str) -> Term:
    s = s.strip().rstrip(';')
    if s == 'return':
        return Term('return', text=s)
    if s == 'unreachable':
        return Term('unreachable', text=s)
    if s.startswith('resume') or s.startswith('terminate') or s.startswith('abort'):
        return Term('resume', text=s)
    m = re.match(r'^goto -> bb(\d+)$', s)
    if m:
        return Term('goto', {'target': int(m.group(1))}, s)
    if s.startswith('switchInt('):
        end = match_close(s, len('switchInt'))
        op = parse_operand(s[len('switchInt('):end])
        tg = s[end + 1:].strip()
        assert tg.startswith('-> [') and tg.endswith(']'), s
        arms, other = [], None
        for item in split_top(tg[4:-1]):
            k, v = item.split(':')
            bb = int(v.strip()[2:])
            if k.strip() == 'otherwise':
                other = bb
            else:
                arms.append((int(k.strip()), bb))
        return Term('switch', {'op': op, 'arms': arms, 'otherwise': other}, s)
    if s.startswith('drop('):
        end = match_close(s, 4)
        pl = parse_place(s[5:end])
        m = re.search(r'return: bb(\d+)', s[end:])
        return Term('drop', {'place': pl, 'target': int(m.group(1))}, s)
    if s.startswith('assert('):
        end = match_close(s, 6)
        parts = split_top(s[7:end])
        cond = parts[0]
        expected = True
        if cond.startswith('!'):
            expected = False
            cond = cond[1:]
        m = re.search(r'success: bb(\d+)', s[end:])
        return Term('assert', {'cond': parse_operand(cond), 'expected': expected, 'msg': parts[1] if len(parts) > 1 else '',
                               'target': int(m.group(1))}, s)
    # call
    m = re.match(r'^(.*?) = (.*)$', s)
    if m:
        dest_s, rest = m.group(1), m.group(2)
    else:
        dest_s, rest = None, s
    tm = re.search(r'\)\s*->\s*(\[return: bb(\d+).*\]|unwind .*|bb\d+)$', rest)
    if not tm:
        raise ValueError('terminator? ' + s)
    callpart = rest[:tm.start() + 1]
    ret = int(tm.group(2)) if tm.group(2) else None
    j = _match_open(callpart, len(callpart) - 1)
    callee = callpart[:j].strip()
    args = tuple(parse_operand(x) for x in split_top(callpart[j + 1:-1]))
    d = {'dest': parse_place(dest_s) if dest_s else None, 'args': args, 'ret': ret}
    if callee.startswith(('move ', 'copy ')):
        d['callee_op'] = parse_operand(callee)
        d['callee'] = None
    else:
        d['callee'] = callee
    return Term('call', d, s)


RE_FN = re.compile(r'^fn (.*?)\((.*)\) -> (.*) \{$')
RE_BB = re.compile(r'^    bb(\d+)( \(cleanup\))?: \{$')
RE_LET = re.compile(r'^\s+let (mut )?_(\d+): (.*);$')


def parse_dump(text: str) -> Dict[str, Func]:
    funcs: Dict[str, Func] = {}
    lines = text.split('\n')
    i, n = 0, len(lines)
    while i < n:
        ln = lines[i]
        if ln.startswith('fn ') and ln.endswith('{'):
            # header: name may contain parens inside <impl at ..> – find the param list = last top-level (...) before ' -> '
            hdr = ln[3:-2]
            k = hdr.rfind(') -> ')
            # find matching open for that ')'
            j = _match_open(hdr[:k + 1], k)
            name = hdr[:j]
            params = []
            for p in split_top(hdr[j + 1:k]):
                m = re.match(r'_(\d+): (.*)$', p)
                params.append((int(m.group(1)), m.group(2)))
            ret = hdr[k + 5:]
            f = Func(name, params, ret, {}, {}, header=ln)
            for (pi, pt) in params:
                f.locals[pi] = pt
            i += 1
            cur = None
            while i < n and lines[i] != '}':
                l2 = lines[i]
                m = RE_LET.match(l2)
                if m:
                    f.locals[int(m.group(2))] = m.group(3)
                    i += 1; continue
                m = RE_BB.match(l2)
                if m:
                    bid = int(m.group(1))
                    body = []
                    i += 1
                    while lines[i] != '    }':
                        body.append(lines[i].strip()); i += 1
                    # statements may span multiple lines? (not in practice)
                    stmts = []
                    for b in body[:-1]:
                        if not b or b.startswith(('StorageLive', 'StorageDead', 'nop', 'FakeRead', 'PlaceMention', 'Coverage', 'ConstEvalCounter', 'AscribeUserType', 'Retag', 'Deinit', 'BackwardIncompatibleDropHint', '//')):
                            continue
                        b = b.rstrip(';')
                        mm = re.match(r'^discriminant\((.*)\) = (\d+)$', b)
                        if mm:
                            stmts.append(Stmt(parse_place(mm.group(1)), Rvalue('setdiscr', (int(mm.group(2)),)), b)); continue
                        # split at first top-level ' = '
                        idx = _top_eq(b)
                        stmts.append(Stmt(parse_place(b[:idx]), parse_rvalue(b[idx + 3:]), b))
                    f.blocks[bid] = Block(stmts, parse_term(body[-1]), bool(m.group(2)))
                    i += 1; continue
                i += 1
            funcs[name] = f
        i += 1
    return funcs


def _top_eq(b: str) -> int:
    depth = 0
    i = 0
    while i < len(b):
        c = b[i]
        if c == '-' and b[i + 1:i + 2] == '>':
            i += 2; continue
        if c in OPEN:
            depth += 1
        elif c in CLOSE:
            depth -= 1
        elif depth == 0 and b.startswith(' = ', i):
            return i
        i += 1
    raise ValueError('no = in ' + b)


if __name__ == '__main__':
    import sys, time
    t = time.time()
    fs = parse_dump(open(sys.argv[1]).read())
    print(len(fs), 'functions parsed in', round(time.time() - t, 2), 's')
    kinds = {}
    for f in fs.values():
        for b in f.blocks.values():
            for s in b.stmts:
                kinds[s.rv.kind] = kinds.get(s.rv.kind, 0) + 1
            kinds['T:' + b.term.kind] = kinds.get('T:' + b.term.kind, 0) + 1
    print(kinds)
