"""C18 (containers as key->node maps, views, DOT) and C11 (scc)."""
import itertools
import re

from logic import AND, OR, EQ
from nodeops import canon_sequences, used_nodes
from searches import abnormal
from runner import abnormal_kind

DIRECTED = ('digraph', 'sync_digraph')
FLAVOURS = ('digraph', 'sync_digraph', 'ungraph', 'sync_ungraph')

# harness nodes: keys 0,1,2 and a second allocation with key 0
KEYS = [0, 1, 2, 0]
ABSENT = 7


def mutators():
    ops = [['g_insert', i] for i in range(4)]
    ops += [['g_remove', k] for k in (0, 1, 2)]
    # node 3 shares its key with node 0: it is used for insert only - edges between two distinct nodes with one
    # key are outside the 'distinct keys' precondition of the edge-operation properties
    ops += [['connect', a, b, {'s': 'e'}] for a, b in ((0, 1), (1, 0), (1, 2), (2, 1), (0, 0))]
    ops += [['disconnect', 0, 1], ['disconnect', 1, 0], ['isolate', 1]]
    return ops


def observers(flavour, members_possible=(0, 1, 2)):
    obs = [['g_get', k] for k in (0, 1, 2, ABSENT)]
    obs += [['g_contains', k] for k in (0, 1, 2, ABSENT)]
    obs += [['g_len'], ['g_is_empty'], ['g_to_vec'], ['g_iter'], ['g_orphans']]
    if flavour in DIRECTED:
        obs += [['g_roots'], ['g_leaves']]
    return obs


def c18_history_scenarios(flavour, k):
    muts = mutators()
    nodes = [[KEYS[i], {'s': f'n{i}'}] for i in range(4)]
    for n in range(k + 1):
        for hist in itertools.product(range(len(muts)), repeat=n):
            steps = [['g_new']]
            ne = 0
            for h in hist:
                st = list(muts[h])
                if st[0] == 'connect':
                    st[3] = {'s': f'e{ne}'}
                    ne += 1
                steps.append(st)
            steps += observers(flavour) + [['dump']]
            yield (flavour, 'history', n), {'flavour': flavour, 'nodes': nodes, 'steps': steps,
                                           'hash_free': ['g_iter'], 'meta': {'family': 'history', 'len': n}}


def c18_sole_handle_scenarios(flavour):
    """the harness gives up its own handle of a member, so the container holds the only one; remove() hands the node out
    and the caller keeps it: the node and its neighbours must still list the same edges"""
    nodes = [[KEYS[i], {'s': f'n{i}'}] for i in range(3)]
    shapes = [[(0, 1)], [(1, 0)], [(0, 1), (1, 2)], [(0, 1), (2, 1)], [(1, 1)], [(0, 1), (1, 0)], [(1, 0), (1, 2)]]
    for seq in shapes:
        pre = [['connect', a, b, {'s': f'e{j}'}] for j, (a, b) in enumerate(seq)]
        for r in (0, 1):
            steps = pre + [['g_new']] + [['g_insert', i] for i in range(3)] + [['drop', r], ['g_remove', KEYS[r], r]]
            steps += observers(flavour) + [['dump']]
            yield (flavour, 'sole-handle'), {'flavour': flavour, 'nodes': nodes, 'steps': steps, 'hash_free': ['g_iter'],
                                             'meta': {'family': 'history', 'len': len(steps)}}


def c18_index_scenarios(flavour):
    nodes = [[KEYS[i], {'s': f'n{i}'}] for i in range(4)]
    for ins in ([], [0], [3, 0], [1, 2]):
        for k in (0, 1, ABSENT):
            # g[k] and (directed flavours) g[&k]; containers made by new(), default() and with_capacity()
            news = [['g_new'], ['g_new', 'default']] + ([['g_new', 'with_capacity']] if flavour == 'digraph' else [])
            for new in news:
                for by_ref in ((False, True) if flavour in DIRECTED else (False,)):
                    steps = [new] + [['g_insert', i] for i in ins] + [['g_index', k, by_ref]]
                    yield (flavour, 'index' + ('-ref' if by_ref else '')), {'flavour': flavour, 'nodes': nodes, 'steps': steps, 'hash_free': [],
                                                                             'meta': {'family': 'index'}}


ATTR_SPECS = [
    {'gattr': None, 'nattr': [], 'eattr': []},
    {'gattr': [['rankdir', 'LR']], 'nattr': [[0, [['label', 'a']]], [2, [['shape', 'box'], ['color', 'red']]]],
     'eattr': [[0, 1, [['w', '1']]], [1, 1, [['style', 'dotted'], ['w', '2']]]]},
    {'gattr': [['a', 'b'], ['c', 'd']], 'nattr': [[1, []]], 'eattr': [[0, 0, []], [1, 0, [['k', 'v']]]]},
]


def c18_dot_scenarios(flavour, max_edges):
    for seq in canon_sequences(3, max_edges):
        nodes = [[i, 100 + i] for i in range(3)]
        pre = [['connect', u, v, {'s': f'e{j}'}] for j, (u, v) in enumerate(seq)]
        for members in ((0, 1, 2), (0, 1), ()):
            base = pre + [['g_new']] + [['g_insert', i] for i in members]
            yield (flavour, 'to_dot'), {'flavour': flavour, 'nodes': nodes, 'steps': base + [['dump', 'lite'], ['g_to_dot']],
                                        'meta': {'family': 'dot', 'members': list(members)}}
            if flavour != 'sync_ungraph':
                for spec in ATTR_SPECS:
                    yield (flavour, 'to_dot_with_attr'), {'flavour': flavour, 'nodes': nodes,
                                                          'steps': base + [['dump', 'lite'], ['g_to_dot_attr', spec]],
                                                          'meta': {'family': 'dot', 'members': list(members)}}


# ------------------------------------------------------------------ C18 oracle
def node_obs_ok(o, alias, key, nodevals):
    if o is None:
        return False
    return AND([o['alias'] == alias, EQ(o['key'], key), EQ(o['value'], nodevals[alias])])


def edge_model(scen, obs):
    """how many edges join each ordered pair of harness nodes after the history, replaying only the edge operations that
    succeeded (container operations must not touch edges)"""
    from collections import Counter
    fl = scen['flavour']
    cnt = Counter()
    for st, o in zip(scen['steps'], obs):
        op = st[0]
        if op == 'connect':
            cnt[(st[1], st[2])] += 1
        elif op == 'disconnect' and isinstance(o, list) and o and o[0] == 'ok':
            a, b = st[1], st[2]
            if cnt[(a, b)] > 0 and (fl in DIRECTED or cnt[(b, a)] == 0 or True):
                # undirected: which of the two orientations goes is an internal matter; only the pair count is modelled
                if fl in DIRECTED:
                    cnt[(a, b)] -= 1
                else:
                    if cnt[(b, a)] > 0 and cnt[(a, b)] == 0:
                        cnt[(b, a)] -= 1
                    elif cnt[(a, b)] > 0 and cnt[(b, a)] == 0:
                        cnt[(a, b)] -= 1
                    else:
                        cnt[('either', frozenset((a, b)))] -= 1
            elif fl not in DIRECTED and cnt[(b, a)] > 0:
                cnt[(b, a)] -= 1
        elif op == 'isolate':
            for (p, q) in list(cnt):
                if p != 'either' and st[1] in (p, q):
                    cnt[(p, q)] = 0
                elif p == 'either' and st[1] in q:
                    cnt[(p, q)] = 0
    return cnt


def eval_edges_untouched(scen, obs, dump):
    """the final dump lists exactly the edges the edge operations left: per unordered pair of nodes, as many as modelled"""
    from collections import Counter
    fl = scen['flavour']
    cnt = edge_model(scen, obs)
    exp = Counter()
    for key, v in cnt.items():
        if key[0] == 'either':
            exp[key[1]] += v
        else:
            exp[frozenset(key)] += v
    got = Counter()
    n = len(dump)
    keyidx = {}
    for i, d in enumerate(dump):
        keyidx.setdefault(d['key'], i)
    for i, d in enumerate(dump):
        lst = d['out'] if fl in DIRECTED else d['adj']
        for (k, _) in lst:
            j = keyidx.get(k)
            pair = frozenset((i, j))
            if fl in DIRECTED or i == j:
                got[pair] += 1 if fl in DIRECTED else 0.5
            else:
                got[pair] += 0.5
    # harness node 3 shares its key with node 0 and never takes part in an edge
    exp = {p: c for p, c in exp.items() if c}
    got = {p: c for p, c in got.items() if c}
    return [(exp == got, f'edges after the history: {sorted((sorted(p), c) for p, c in got.items())}, the edge operations left {sorted((sorted(p), c) for p, c in exp.items())} (a container operation changed edges)', 'edges-touched')]


def eval_history(scen, obs):
    fl = scen['flavour']
    steps = scen['steps']
    cs = []
    members = {}            # key -> alias
    if abnormal_kind(obs[-1]) and len(obs) <= len(steps):
        i = len(obs) - 1
        return [(False, f'{steps[i][0]} ended abnormally: {obs[-1]}', 'abnormal')]
    dump = obs[-1]
    nodevals = [d['value'] for d in dump]
    for st, o in zip(steps, obs):
        op = st[0]
        if op == 'g_insert':
            k = KEYS[st[1]]
            cs.append((o == (k not in members), f'insert of node {st[1]} (key {k}) returned {o} with members {members}', 'insert'))
            if k not in members:
                members[k] = st[1]
        elif op == 'g_remove':
            k = st[1]
            if k in members:
                cs.append((node_obs_ok(o, members[k], k, nodevals), f'remove({k}) returned {o}, expected the inserted node {members[k]}', 'remove'))
                del members[k]
            else:
                cs.append((o is None, f'remove({k}) of an absent key returned {o}', 'remove'))
        elif op == 'g_get':
            k = st[1]
            if k in members:
                cs.append((node_obs_ok(o, members[k], k, nodevals), f'get({k}) returned {o}, expected the inserted node {members[k]} itself', 'get'))
            else:
                cs.append((o is None, f'get({k}) of an absent key returned {o}', 'get'))
        elif op == 'g_contains':
            cs.append((o == (st[1] in members), f'contains({st[1]}) returned {o} with members {members}', 'contains'))
        elif op == 'g_len':
            cs.append((o == len(members), f'len() returned {o} with members {members}', 'len'))
        elif op == 'g_is_empty':
            cs.append((o == (len(members) == 0), f'is_empty() returned {o} with members {members}', 'is_empty'))
        elif op == 'g_to_vec':
            cs.append((sorted_eq(o, members.values()), f'to_vec() returned nodes {o}, members are {sorted(members.values())}', 'to_vec'))
        elif op == 'g_iter':
            ok = sorted_eq([a for _, a in o], members.values()) and all(k in members and members[k] == a for k, a in o)
            cs.append((ok, f'iter() yielded {o}, members are {members}', 'iter'))
        elif op in ('g_roots', 'g_leaves', 'g_orphans'):
            if fl in DIRECTED:
                pred = {'g_roots': lambda d: len(d['in']) == 0, 'g_leaves': lambda d: len(d['out']) == 0,
                        'g_orphans': lambda d: len(d['in']) == 0 and len(d['out']) == 0}[op]
            else:
                pred = lambda d: len(d['adj']) == 0
            exp = [a for a in members.values() if pred(dump[a])]
            cs.append((sorted_eq(o, exp), f'{op[2:]}() returned nodes {o}, expected {sorted(exp)}', op[2:]))
    cs += eval_edges_untouched(scen, obs, dump)
    return cs


def sorted_eq(a, b):
    try:
        return sorted(a) == sorted(b)
    except TypeError:
        return False


def eval_index(scen, obs):
    steps = scen['steps']
    members = {}
    for st in steps:
        if st[0] == 'g_insert' and KEYS[st[1]] not in members:
            members[KEYS[st[1]]] = st[1]
    k = steps[-1][1]
    last = obs[-1]
    if k in members:
        if abnormal_kind(last):
            return [(False, f'graph[{k}] on a member ended abnormally: {last}', 'index')]
        return [(AND([last['alias'] == members[k], EQ(last['key'], k)]), f'graph[{k}] returned {last}, expected node {members[k]}', 'index')]
    return [(abnormal_kind(last) == 'panic' and len(obs) == len(steps), f'graph[{k}] on an absent key returned {last} instead of panicking', 'index')]


def attr_str(pairs):
    return ''.join(f'[{k}="{v}"]' for k, v in pairs)


def _norm(l):
    """whitespace- and semicolon-insensitive form of a DOT line"""
    return re.sub(r'\s+', '', l.strip().rstrip(';'))


def eval_dot(scen, obs):
    """structure of the DOT text, tolerant of indentation / spacing / trailing semicolons: the property fixes
    which statements appear (and, per node, the order of its edge statements), not the layout"""
    fl = scen['flavour']
    ab = abnormal(obs)
    if ab:
        return ab
    dump, text = obs[-2], obs[-1]
    st = scen['steps'][-1]
    members = scen['meta']['members']
    lst = 'out' if fl in DIRECTED else 'adj'
    cs = []
    if not isinstance(text, str):
        return [(False, f'DOT export returned {text}', 'dot')]
    lines = [l for l in text.split('\n') if l.strip()]
    ok_frame = len(lines) >= 2 and re.fullmatch(r'(strict)?(di)?graph\w*\{', _norm(lines[0])) is not None and _norm(lines[-1]) == '}'
    cs.append((ok_frame, f'DOT text is not framed by "digraph {{" ... "}}": {text!r}', 'dot-frame'))
    if not ok_frame:
        return cs
    body = [_norm(l) for l in lines[1:-1]]
    spec = st[1] if st[0] == 'g_to_dot_attr' else {'gattr': None, 'nattr': [], 'eattr': []}
    exp_g = [_norm(f'{k}="{v}"') for k, v in (spec['gattr'] or [])]
    cs.append((body[:len(exp_g)] == exp_g, f'graph attribute lines {body[:len(exp_g)]} != {exp_g}', 'dot-gattr'))
    rest = body[len(exp_g):]
    nat = {k: p for k, p in spec['nattr']}
    eat = {(a, b): p for a, b, p in spec['eattr']}
    node_stmts = []
    per = {}
    order = []
    for l in rest:
        m2 = re.fullmatch(r'(\d+)->(\d+)(.*)', l)
        m = re.fullmatch(r'(\d+)(.*)', l)
        if m2:
            u = int(m2.group(1))
            if u in per and order[-1] != u:
                return cs + [(False, f'edge statements of node {u} are not contiguous in {text!r}', 'dot-edges')]
            if u not in per:
                per[u] = []
                order.append(u)
            per[u].append((int(m2.group(2)), m2.group(3)))
        elif m:
            node_stmts.append((int(m.group(1)), m.group(2)))
        else:
            return cs + [(False, f'unexpected DOT line {l!r} in {text!r}', 'dot-line')]
    exp_nodes = sorted((k, _norm(attr_str(nat[k])) if k in nat else '') for k in members)
    cs.append((sorted(node_stmts) == exp_nodes, f'node statements {node_stmts} != one per member {exp_nodes}', 'dot-nodes'))
    for k in members:
        exp = [(t, _norm(attr_str(eat[(k, t)])) if (k, t) in eat else '') for t, _ in dump[k][lst]]
        cs.append((per.get(k, []) == exp, f'edge statements of node {k}: {per.get(k, [])} != {exp} (the edges iterating the node yields, in order)', 'dot-edges'))
    cs.append((all(u in members for u in per), f'edge statements for non-members: {sorted(per)}', 'dot-edges'))
    return cs


def evaluate_c18(prop, scen, obs, ctx):
    fam = scen['meta']['family']
    if fam == 'history':
        return eval_history(scen, obs)
    if fam == 'index':
        return eval_index(scen, obs)
    return eval_dot(scen, obs)


def sig_c18(f):
    return {'flavour': f['scen']['flavour'], 'family': f['scen']['meta']['family'], 'kind': f['kind']}


# ------------------------------------------------------------------ C11 scc
def scc_scenarios(flavour, n, max_edges, simple=False):
    from nodeops import simple_sequences
    for seq in (simple_sequences(n, max_edges, loops=True) if simple else canon_sequences(n, max_edges)):
        nodes = [[i, 100 + i] for i in range(n)]
        pre = [['connect', u, v, {'s': f'e{j}'}] for j, (u, v) in enumerate(seq)]
        steps = pre + [['g_new']] + [['g_insert', i] for i in range(n)] + [['dump', 'lite'], ['g_scc']]
        yield (flavour, 'scc'), {'flavour': flavour, 'nodes': nodes, 'steps': steps, 'meta': {'seq': seq, 'family': 'scc'}}


def scc_history_scenarios(flavour, n, max_edges):
    """scc(), then a change of reachability made through node handles or the container, then scc() again on the same
    container: the second answer must describe the graph as it is then"""
    for seq in canon_sequences(n, max_edges):
        nodes = [[i, 100 + i] for i in range(n)]
        pre = [['connect', u, v, {'s': f'e{j}'}] for j, (u, v) in enumerate(seq)]
        head = pre + [['g_new']] + [['g_insert', i] for i in range(n)] + [['g_scc']]
        used = used_nodes(seq)
        ops = [['connect', a, b, {'s': 'enew'}] for a in range(n) for b in range(n) if a != b and max(a, b) <= used + 1]
        ops += [['disconnect', u, v] for (u, v) in sorted(set(map(tuple, seq)))]
        ops += [['isolate', a] for a in range(min(used + 1, n))]
        for op in ops:
            yield (flavour, 'scc-again'), {'flavour': flavour, 'nodes': nodes, 'steps': head + [op, ['dump', 'lite'], ['g_scc']],
                                           'meta': {'seq': seq, 'family': 'scc-again', 'then': op[:3] if op[0] != 'connect' else op[:3]}}


def true_sccs(adj):
    n = len(adj)
    reach = []
    for s in range(n):
        seen = {s}
        st = [s]
        while st:
            u = st.pop()
            for v in adj[u]:
                if v not in seen:
                    seen.add(v)
                    st.append(v)
        reach.append(seen)
    comps = set()
    for u in range(n):
        comps.add(frozenset(v for v in range(n) if v in reach[u] and u in reach[v]))
    return comps


def evaluate_c11(prop, scen, obs, ctx):
    ab = abnormal(obs)
    if ab:
        return ab
    dump, res = obs[-2], obs[-1]
    n = len(dump)
    adj = [sorted({k for k, _ in d['out']}) for d in dump]
    exp = true_sccs(adj)
    flat = [k for c in res for k in c]
    cs = [(sorted(flat) == list(range(n)), f'scc() = {res}: not every member appears exactly once', 'scc-partition')]
    got = {frozenset(c) for c in res}
    then = f' then {scen["meta"]["then"]} and a second scc() on the same container' if scen['meta'].get('then') else ''
    cs.append((got == exp, f'scc() = {res}, strongly connected components are {sorted(sorted(c) for c in exp)} (edges {scen["meta"]["seq"]}{then})', 'scc-components'))
    return cs


def sig_c11(f):
    return {'flavour': f['scen']['flavour'], 'kind': f['kind']}


def natrun_repeat(native, scen, times=48):
    """iteration-order dependent counterexample: fresh container instances until the oracle fails"""
    import scheck
    last = None
    for _ in range(times // 8):
        for obs in native.run([scen] * 8):
            last = obs
            if any(not scheck.truthy(c) for c, _, _ in evaluate_c11('C11', scen, obs, None)):
                return obs
    return last


def run(prop, tier, seed):
    from scheck import scenario_check
    if prop == 'C11':
        items = []
        for fl in DIRECTED:
            if tier == 'quick':
                items += list(scc_scenarios(fl, 3, 4))
                items += list(scc_scenarios(fl, 4, 4, simple=True))
                items += list(scc_history_scenarios(fl, 3, 2))
            else:
                items += list(scc_scenarios(fl, 3, 5))
                items += list(scc_scenarios(fl, 4, 4))
                items += list(scc_history_scenarios(fl, 3, 2))      # every iteration order of two scc() calls: 3 edges do not finish in 90 min
                from nodeops import simple_sequences
                for seq in simple_sequences(5, 5):
                    nodes = [[i, 100 + i] for i in range(5)]
                    pre = [['connect', u, v, {'s': f'e{j}'}] for j, (u, v) in enumerate(seq)]
                    if len(seq) == 5:
                        items.append(((fl, 'scc'), {'flavour': fl, 'nodes': nodes, 'steps': pre + [['g_new']] + [['g_insert', i] for i in range(5)] + [['dump', 'lite'], ['g_scc']], 'meta': {'seq': seq, 'family': 'scc'}}))
        return scenario_check(
            prop, tier, seed, items, evaluate_c11, sig_c11,
            bounds={'members': '3 (<=4 edges) and 4 (<=4 edges, no parallel edges)' if tier == 'quick' else '3 (<=5 edges), 4 (<=4 edges), 5 (exactly 5 edges, simple digraphs)', 'max_edges': 4 if tier == 'quick' else 5,
                    'free_choices': 'the order in which the hash map yields its members at every next() (subsumes insertion order)',
                    'second_call': 'scc(); one connect / disconnect / isolate through node handles; scc() again on the same container (3 members, <=%d edges before)' % 2,
                    'outside': 'larger graphs; neighbours that are not members'},
            assumptions=['AHashMap/AHashSet modelled as association lists with free iteration order', 'std models of engine A',
                         'oracle: mutual reachability on the out-lists read back through iter_out'],
            rule='work item = canonical connect sequence; executor paths = all iteration orders of the container; oracle = set of mutual-reachability classes',
            expected_cells=[(fl, k) for fl in DIRECTED for k in ('scc', 'scc-again')], natrun=natrun_repeat)
    items = []
    k = 3 if tier == 'quick' else 4
    for fl in FLAVOURS:
        items += list(c18_history_scenarios(fl, k))
        items += list(c18_index_scenarios(fl))
        items += list(c18_sole_handle_scenarios(fl))
        items += list(c18_dot_scenarios(fl, 2 if tier == 'quick' else 3))
    cells = sorted({str(c) for c, _ in items})
    return scenario_check(
        prop, tier, seed, items, evaluate_c18, sig_c18,
        bounds={'history_length': k, 'harness_nodes': 'keys 0,1,2 plus a second allocation with key 0', 'mutators': len(mutators()),
                'dot': 'members subsets of 3 nodes, <=2 (thorough 3) edges, 3 attribute-callback tables',
                'symbolic': 'node values, edge values', 'free_choices': 'hash iteration order in iter() and in both DOT exports',
                'outside': 'longer histories, more keys; the HashMap model is a map by construction - what is decided is gdsl\'s delegation, predicates and formatting'},
        assumptions=['AHashMap/HashMap modelled as association list', 'std fmt modelled as token lists (rustc 1.95 template encoding)'],
        rule='work item = (mutation history of <=k calls from 15 mutators, then every observer) / index probe / DOT export of a small graph; compared with a dict model call by call',
        expected_cells=cells)


def c15_items(tier):
    items = []
    for fl in ('digraph', 'ungraph'):
        for c, s in c18_history_scenarios(fl, 1 if tier == 'quick' else 2):
            items.append((('container',) + c, s))
        for c, s in c18_dot_scenarios(fl, 2):
            if s['steps'][-1][0] == 'g_to_dot':
                items.append((('dot',) + c, s))
    for c, s in scc_scenarios('digraph', 3, 3):
        items.append((('scc',) + c, s))
    return items
