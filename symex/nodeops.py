"""C01 / C02 / C03: one free node operation from every bounded pre-state.

Scenario shape:  connect* ; dump ; OP ; dump
Oracles are written over observations only (symbolic or native), so the same code decides
the symbolic run (through the solver) and the native replay (concretely).
"""
import itertools

from logic import AND, OR, NOT, EQ, IMPLIES, COUNT, MULTISET_EQ, removed, inserted

DIRECTED = ('digraph', 'sync_digraph')
OPS = ('connect', 'try_connect', 'disconnect', 'isolate')


# ------------------------------------------------------------------ shapes
def canon_sequences(n_nodes, max_edges):
    """connect sequences [(u,v)..] up to node relabelling: labels appear in first-use order"""
    out = []

    def rec(seq, used):
        out.append(list(seq))
        if len(seq) == max_edges:
            return
        for u in range(min(used + 1, n_nodes)):
            used_u = max(used, u + 1)
            for v in range(min(used_u + 1, n_nodes)):
                rec(seq + [(u, v)], max(used_u, v + 1))
    rec([], 0)
    return out


def simple_sequences(n_nodes, max_edges, loops=False):
    """connect sequences without repeated ordered pairs (and without self-loops unless asked), up to relabelling"""
    out = []

    def rec(seq, used, seen):
        out.append(list(seq))
        if len(seq) == max_edges:
            return
        for u in range(min(used + 1, n_nodes)):
            uu = max(used, u + 1)
            for v in range(min(uu + 1, n_nodes)):
                if (u == v and not loops) or (u, v) in seen:
                    continue
                rec(seq + [(u, v)], max(uu, v + 1), seen | {(u, v)})
    rec([], 0, frozenset())
    return out


def used_nodes(seq):
    return max([max(u, v) + 1 for u, v in seq], default=0)


def op_instances(seq, n_nodes):
    """every operation with every operand choice, fresh nodes canonicalised"""
    used = used_nodes(seq)
    out = []
    for u in range(min(used + 1, n_nodes)):
        used_u = max(used, u + 1)
        out.append(('isolate', u, None))
        for v in range(min(used_u + 1, n_nodes)):
            for op in ('connect', 'try_connect', 'disconnect'):
                out.append((op, u, v))
    return out


HANDLE_KINDS = ('orig', 'clone', 'edge', 'find')


def scenarios(flavour, n_nodes, max_edges, provenance=False):
    """yield (cell, scenario) pairs; cell identifies (flavour, op) for vacuity accounting"""
    directed = flavour in DIRECTED
    for seq in canon_sequences(n_nodes, max_edges):
        pre = [['connect', u, v, {'s': f'e{j}'}] for j, (u, v) in enumerate(seq)]
        for (op, u, v) in op_instances(seq, n_nodes):
            hkinds = ['orig']
            if provenance:
                hkinds = ['clone', ['graph', u]]
                # an edge-endpoint / lookup handle for u exists when some edge mentions u
                for j, (a, b) in enumerate(seq):
                    if b == u:
                        idx = sum(1 for (a2, b2) in seq[:j] if a2 == a)
                        hkinds.append(['out' if directed else 'adj', a, idx])
                        hkinds.append(['find_out' if directed else 'find_adj', a, u])
                        if a != u:
                            hkinds.append(['found', a, u])
                        break
                for j, (a, b) in enumerate(seq):
                    if a == u and directed:
                        idx = sum(1 for (a2, b2) in seq[:j] if b2 == b)
                        hkinds.append(['in', b, idx])
                        hkinds.append(['find_in', b, u])
                        break
            for hk in hkinds:
                if hk == 'orig':
                    hu = u
                elif hk == 'clone':
                    hu = ['clone', u]
                else:
                    hu = hk
                if op == 'isolate':
                    step = ['isolate', hu]
                elif op == 'disconnect':
                    step = ['disconnect', hu, v]
                else:
                    step = [op, hu, v if not provenance else ['clone', v], {'s': 'enew'}]
                gsteps = []
                if isinstance(hk, list) and hk[0] == 'graph':
                    gsteps = [['g_new']] + [['g_insert', i] for i in range(n_nodes)]
                scen = {'flavour': flavour, 'nodes': [[i, 100 + i] for i in range(n_nodes)],
                        'steps': pre + gsteps + [['dump'], step, ['dump']],
                        'meta': {'op': op, 'u': u, 'v': v, 'seq': seq,
                                 'handle': hk if isinstance(hk, str) else hk[0]}}
                yield (flavour, op), scen


def two_op_scenarios(flavour, n_nodes, max_edges):
    """connect* ; op1 ; dump ; op2 ; dump - the contract is asserted for op2 on the state op1 left behind, so a
    divergence op1 causes in state the node API cannot show directly (list split, capacity) gets a second chance"""
    for seq in canon_sequences(n_nodes, max_edges):
        pre = [['connect', u, v, {'s': f'e{j}'}] for j, (u, v) in enumerate(seq)]
        insts = op_instances(seq, n_nodes)
        for (op1, u1, v1) in insts:
            if op1 == 'isolate':
                st1 = ['isolate', u1]
            elif op1 == 'disconnect':
                st1 = ['disconnect', u1, v1]
            else:
                st1 = [op1, u1, v1, {'s': 'emid'}]
            seq1 = seq + ([(u1, v1)] if op1 in ('connect', 'try_connect') else [])
            for (op, u, v) in op_instances(seq1, n_nodes):
                if op == 'isolate':
                    step = ['isolate', u]
                elif op == 'disconnect':
                    step = ['disconnect', u, v]
                else:
                    step = [op, u, v, {'s': 'enew'}]
                yield (flavour, op), {'flavour': flavour, 'nodes': [[i, 100 + i] for i in range(n_nodes)],
                                      'steps': pre + [st1, ['dump'], step, ['dump']],
                                      'meta': {'op': op, 'u': u, 'v': v, 'seq': seq, 'handle': 'orig', 'family': 'two-op', 'first': st1[:3]}}


def hub_scenarios(flavour, n_edges=5, with_removal=False):
    """pre-states in which node 0 has n_edges incident edges (every orientation, parallel edges, self-loops):
    list lengths beyond the small-Vec sizes; optionally one removal before the operation under test"""
    import itertools
    kinds = [(0, 1), (1, 0), (0, 2), (2, 0), (0, 0)]
    ops = [('isolate', 0, None), ('isolate', 1, None), ('disconnect', 0, 1), ('disconnect', 1, 0), ('disconnect', 0, 0),
           ('connect', 0, 1), ('try_connect', 2, 0)]
    for combo in itertools.product(range(len(kinds)), repeat=n_edges):
        # edges to nodes 1 and 2 are interchangeable: canonical = first non-loop edge goes to node 1
        first = next((kinds[c] for c in combo if kinds[c] != (0, 0)), None)
        if first is not None and 2 in first:
            continue
        seq = [kinds[c] for c in combo]
        pre = [['connect', u, v, {'s': f'e{j}'}] for j, (u, v) in enumerate(seq)]
        pres = [pre]
        if with_removal:
            pres = [pre + [['disconnect', 0, 1]], pre + [['disconnect', 1, 0]], pre + [['isolate', 2]]]
        for p in pres:
            for (op, u, v) in ops:
                if op == 'isolate':
                    step = ['isolate', u]
                elif op == 'disconnect':
                    step = ['disconnect', u, v]
                else:
                    step = [op, u, v, {'s': 'enew'}]
                yield (flavour, op), {'flavour': flavour, 'nodes': [[i, 100 + i] for i in range(3)],
                                      'steps': p + [['dump'], step, ['dump']],
                                      'meta': {'op': op, 'u': u, 'v': v, 'seq': seq, 'handle': 'orig', 'family': 'hub'}}


# ------------------------------------------------------------------ invariants (C01 / C02)
def invariants(flavour, dump):
    """list of (condition, message) over one dump"""
    cs = []
    n = len(dump)
    keys = [d['key'] for d in dump]
    if flavour in DIRECTED:
        for i, d in enumerate(dump):
            cs.append((d['self_ok'], f'node {i}: iterated edge does not carry the iterating node as its own endpoint'))
            cs.append((EQ(d['out_degree'], len(d['out'])), f'node {i}: out_degree != number of outgoing edges'))
            cs.append((EQ(d['in_degree'], len(d['in'])), f'node {i}: in_degree != number of incoming edges'))
            cs.append((EQ(d['is_root'], len(d['in']) == 0), f'node {i}: is_root'))
            cs.append((EQ(d['is_leaf'], len(d['out']) == 0), f'node {i}: is_leaf'))
            cs.append((EQ(d['is_orphan'], len(d['in']) == 0 and len(d['out']) == 0), f'node {i}: is_orphan'))
            for j in range(n):
                has_out = any(k == keys[j] for k, _ in d['out'])
                has_in = any(k == keys[j] for k, _ in d['in'])
                cs.append((EQ(d['is_connected'][j], has_out), f'node {i}: is_connected({j})'))
                cs.append((EQ(d['find_out'][j], keys[j] if has_out else None), f'node {i}: find_outbound({j})'))
                cs.append((EQ(d['find_in'][j], keys[j] if has_in else None), f'node {i}: find_inbound({j})'))
        for i in range(n):
            for j in range(n):
                a = [v for k, v in dump[i]['out'] if k == keys[j]]
                b = [v for k, v in dump[j]['in'] if k == keys[i]]
                cs.append((EQ(a, b), f'mirror: out({i})->{j} vs in({j})<-{i}'))
    else:
        for i, d in enumerate(dump):
            cs.append((d['self_ok'], f'node {i}: iterated edge does not start at the iterating node'))
            cs.append((EQ(d['degree'], len(d['adj'])), f'node {i}: degree != number of incident half-edges'))
            cs.append((EQ(d['is_orphan'], len(d['adj']) == 0), f'node {i}: is_orphan'))
            for j in range(n):
                has = any(k == keys[j] for k, _ in d['adj'])
                cs.append((EQ(d['is_connected'][j], has), f'node {i}: is_connected({j})'))
                cs.append((EQ(d['find_adj'][j], keys[j] if has else None), f'node {i}: find_adjacent({j})'))
        for i in range(n):
            for j in range(i, n):
                a = [v for k, v in dump[i]['adj'] if k == keys[j]]
                b = [v for k, v in dump[j]['adj'] if k == keys[i]]
                if i == j:
                    cs.append((len(a) % 2 == 0 and AND(EQ(COUNT(a, x) % 2, 0) for x in a),
                               f'symmetry: self-loops of {i} are not listed twice each'))
                else:
                    cs.append((MULTISET_EQ(a, b), f'symmetry: {i} lists {j} differently from {j} listing {i}'))
                cs.append((EQ(dump[i]['is_connected'][j], dump[j]['is_connected'][i]),
                           f'symmetry: is_connected({i},{j})'))
    return cs


# ------------------------------------------------------------------ contract (C03)
def lists_of(flavour, d):
    return ['out', 'in'] if flavour in DIRECTED else ['adj']


def unchanged(flavour, pre, post, skip=()):
    cs = []
    for i in range(len(pre)):
        for l in lists_of(flavour, pre[i]):
            if (i, l) in skip:
                continue
            cs.append((EQ(pre[i][l], post[i][l]), f'{l} list of node {i} changed'))
    return cs


def contract(flavour, scen, val, pre, res, post):
    """conditions for: post == model(pre, op) and res as specified. val(x) maps scenario values."""
    m = scen['meta']
    op, u, v = m['op'], m['u'], m['v']
    keys = [d['key'] for d in pre]
    directed = flavour in DIRECTED
    cs = []
    if isinstance(res, dict):
        kind = next(iter(res))
        return [(False, f'{op} ended abnormally: {kind}: {res[kind]}')]
    for i in range(len(pre)):
        cs.append((AND([EQ(pre[i]['key'], post[i]['key']), EQ(pre[i]['value'], post[i]['value'])]),
                   f'key/value of node {i} changed'))
    ulist = 'out' if directed else 'adj'
    vlist = 'in' if directed else 'adj'
    if op in ('connect', 'try_connect'):
        e = val({'s': 'enew'})
        exists = any(k == keys[v] for k, _ in pre[u][ulist])
        if op == 'try_connect' and exists:
            cs.append((res == 'err:EdgeAlreadyExists', f'try_connect on an existing edge returned {res}'))
            return cs + unchanged(flavour, pre, post)
        cs.append((res == 'ok', f'{op} returned {res}'))
        if directed:
            cs.append((EQ(post[u]['out'], pre[u]['out'] + [[keys[v], e]]), 'new edge is not last in the source\'s outgoing list'))
            cs.append((EQ(post[v]['in'], pre[v]['in'] + [[keys[u], e]]), 'new edge is not last in the target\'s incoming list'))
            cs += unchanged(flavour, pre, post, skip={(u, 'out'), (v, 'in')})
        elif u == v:
            cs.append((inserted(pre[u]['adj'], post[u]['adj'], 2, lambda x: EQ(x, [keys[u], e])),
                       'self-loop connect: the node\'s list is not the old list plus two entries for the new edge'))
            cs += unchanged(flavour, pre, post, skip={(u, 'adj')})
        else:
            cs.append((inserted(pre[u]['adj'], post[u]['adj'], 1, lambda x: EQ(x, [keys[v], e])),
                       'connect: caller\'s list is not the old list plus the new edge'))
            cs.append((inserted(pre[v]['adj'], post[v]['adj'], 1, lambda x: EQ(x, [keys[u], e])),
                       'connect: other endpoint\'s list is not the old list plus the new edge'))
            cs += unchanged(flavour, pre, post, skip={(u, 'adj'), (v, 'adj')})
        return cs
    if op == 'disconnect':
        exists = any(k == keys[v] for k, _ in pre[u][ulist])
        if not exists:
            cs.append((res == 'err:EdgeNotFound', f'disconnect without an edge returned {res}'))
            return cs + unchanged(flavour, pre, post)
        if not (isinstance(res, list) and res[0] == 'ok'):
            return cs + [(False, f'disconnect of an existing edge returned {res}')]
        x = res[1]
        if directed:
            cs.append((removed(pre[u]['out'], post[u]['out'], 1, lambda t: EQ(t, [keys[v], x])),
                       'disconnect: source\'s outgoing list is not the old list minus one edge with the returned value'))
            cs.append((removed(pre[v]['in'], post[v]['in'], 1, lambda t: EQ(t, [keys[u], x])),
                       'disconnect: target\'s incoming list is not the old list minus the same edge'))
            cs += unchanged(flavour, pre, post, skip={(u, 'out'), (v, 'in')})
        elif u == v:
            cs.append((removed(pre[u]['adj'], post[u]['adj'], 2, lambda t: EQ(t, [keys[u], x])),
                       'disconnect of a self-loop: both entries of exactly one edge must go'))
            cs += unchanged(flavour, pre, post, skip={(u, 'adj')})
        else:
            cs.append((removed(pre[u]['adj'], post[u]['adj'], 1, lambda t: EQ(t, [keys[v], x])),
                       'disconnect: caller\'s list is not the old list minus one edge with the returned value'))
            cs.append((removed(pre[v]['adj'], post[v]['adj'], 1, lambda t: EQ(t, [keys[u], x])),
                       'disconnect: other endpoint still lists the edge (or lost a different one)'))
            cs += unchanged(flavour, pre, post, skip={(u, 'adj'), (v, 'adj')})
        return cs
    if op == 'isolate':
        cs.append((res == 'ok', 'isolate returned ' + str(res)))
        for i in range(len(pre)):
            for l in lists_of(flavour, pre[i]):
                if i == u:
                    cs.append((len(post[i][l]) == 0, f'isolate: node\'s own {l} list not empty'))
                else:
                    exp = [t for t in pre[i][l] if t[0] != keys[u]]
                    cs.append((EQ(post[i][l], exp), f'isolate: {l} list of node {i} is not the old list minus edges to the isolated node'))
        return cs
    raise ValueError(op)


def self_loop(scen):
    m = scen['meta']
    return m['v'] is not None and m['u'] == m['v']


def evaluate(prop, scen, obs, val):
    """-> list of (condition, message, kind).  prop in C01, C02, C03."""
    fl = scen['flavour']
    nsteps = len(scen['steps'])
    out = []
    dumps = [o for st, o in zip(scen['steps'], obs) if st[0] == 'dump' and not isinstance(o, dict)]
    # abnormal end
    if len(obs) < nsteps or (obs and isinstance(obs[-1], dict)):
        last = obs[-1]
        kind = next(iter(last))
        idx = len(obs) - 1
        stepname = scen['steps'][idx][0]
        if prop == 'C03':
            out.append((False, f'{stepname} ended abnormally: {kind}: {last[kind]}', kind))
        # invariants still apply to the pre-state dump
        if prop in ('C01', 'C02') and dumps:
            out += [(c, 'pre-state: ' + m, 'invariant') for c, m in invariants(fl, dumps[0])]
        return out
    pre, res, post = obs[-3], obs[-2], obs[-1]
    if prop in ('C01', 'C02'):
        out += [(c, 'pre-state: ' + m, 'invariant') for c, m in invariants(fl, pre)]
        out += [(c, 'post-state: ' + m, 'invariant') for c, m in invariants(fl, post)]
    else:
        for c, m in contract(fl, scen, val, pre, res, post):
            out.append((c, m, 'result' if 'returned' in m else 'state'))
    return out


# ------------------------------------------------------------------ check driver
def sig_of(f):
    m = f['scen']['meta']
    return {'flavour': f['scen']['flavour'], 'op': m['op'], 'kind': f['kind'], 'self_loop': m['v'] is not None and m['u'] == m['v']}


def evaluate_ctx(prop, scen, obs, ctx):
    return evaluate(prop, scen, obs, ctx.val)


def run(prop, tier, seed):
    from scheck import scenario_check
    flavours = {'C01': ('digraph', 'sync_digraph'), 'C02': ('ungraph', 'sync_ungraph'),
                'C03': ('digraph', 'sync_digraph', 'ungraph', 'sync_ungraph')}[prop]
    n_nodes = 3
    max_edges = 3 if tier == 'quick' else 4
    prov_edges = 2 if tier == 'quick' else 3
    items = []
    n4_edges = 2 if tier == 'quick' else 3
    for fl in flavours:
        items += list(scenarios(fl, n_nodes, max_edges))
        items += [it for it in scenarios(fl, 4, n4_edges) if max([max(u, v) for u, v in it[1]['meta']['seq']] + [it[1]['meta']['u'], it[1]['meta']['v'] or 0]) == 3]
        if prop == 'C03':
            items += list(scenarios(fl, n_nodes, prov_edges, provenance=True))
        items += list(two_op_scenarios(fl, n_nodes, 1 if tier == 'quick' else 2))
        if tier == 'quick':
            # two operations on a pair joined by two edges (parallel, antiparallel, two self-loops), the first one a removal:
            # whatever a removal leaves behind besides the lists (caches, memos, counters) is exercised by the second
            items += [it for it in two_op_scenarios(fl, n_nodes, 2)
                      if len(it[1]['meta']['seq']) == 2 and set(it[1]['meta']['seq'][0]) == set(it[1]['meta']['seq'][1])
                      and it[1]['meta']['first'][0] in ('disconnect', 'isolate')]
        # high-degree hub states (5 incident edges; thorough: 6, and with a removal before the operation)
        items += list(hub_scenarios(fl, 5))
        if tier != 'quick':
            items += list(hub_scenarios(fl, 6))
            items += list(hub_scenarios(fl, 5, with_removal=True))
    return scenario_check(
        prop, tier, seed, items, evaluate_ctx, sig_of,
        bounds={'nodes': n_nodes, 'max_pre_state_edges': max_edges, 'four_node_states_max_edges': n4_edges, 'hub_states': 'node 0 with 5 incident edges of every orientation' + ('' if tier == 'quick' else '; also 6 edges, and 5 edges followed by one removal'), 'operations_per_history_step': 1, 'two_operation_histories_max_pre_edges': '1, and 2 when both edges join the same pair and the first operation is a removal' if tier == 'quick' else 2,
                'flavours': list(flavours), 'handle_provenance_sweep_max_edges': prov_edges if prop == 'C03' else 0,
                'symbolic': 'all edge values (z3 Int), one fresh value for the operation',
                'outside': 'more than 4 nodes, more pre-state edges, dropped neighbours'},
        assumptions=['std models of engine A (Rc/Arc/Weak, RefCell, RwLock single-thread semantics, Vec, slice iterators, Option/Result) as listed in std_models_used',
                     'rustc MIR (-Zunpretty=mir, overflow-checks on, debug-assertions off) is what gets compiled',
                     'keys are distinct concrete integers; behaviour is invariant under key relabelling (K: Eq+Hash+Clone+Display only)',
                     'every reachable adjacency state is the image of a connect-only history of its surviving edges - up to hidden allocation state (Vec capacity follows the modelled std growth policy); the thorough tier additionally puts one removal before the operation on hub states',
                     'with value-independent control flow most assertions are decided by z3 term simplification (the two sides are the same term); the solver proper is needed - and produces the model - exactly when an implementation mixes up values'],
        rule='work item = (canonical connect sequence, operation, operands, handle provenance); paths = executor paths through the real MIR; every assertion is a z3 condition over all edge values',
        expected_cells=[(fl, op) for fl in flavours for op in OPS])
