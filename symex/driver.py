"""Scenario interpreter on top of the symbolic executor.

A scenario is a JSON-able dict (see DESIGN §4); the same scenario is interpreted natively
by /verif/replay.  Both produce a list of observations, one per step; an abnormal outcome
({'panic':..} / {'deadlock':..} / {'hang':..}) ends the list.
"""
import z3

from engine import (Agg, Cell, Ref, RcH, PyFn, RustPanic, Deadlock, Unsupported, Budget, Infeasible, is_sym,
                    Some, NONE, UNIT, UNINIT)
import models

DIRECTED = ('digraph', 'sync_digraph')


class Abnormal(Exception):
    def __init__(self, obs):
        self.obs = obs


class Driver:
    def __init__(self, ex, scen):
        self.ex = ex
        self.scen = scen
        self.fl = scen['flavour']
        self.directed = self.fl in DIRECTED
        self.NODE = f'{self.fl}::node::Node'
        self.GRAPH = f'{self.fl}::Graph'
        self.nodes = []          # Cells holding the harness's own handles
        self.keys = []
        self.obs = []
        self.graph = None
        self.kept = {}           # named results kept alive (paths, edges ..)
        self.ftable = []         # every verdict of the scenario's filter on this path
        self.script_obs = None

    # ---- values
    def val(self, v):
        if isinstance(v, dict):
            return self.ex.sym_int(v['s'])
        return v

    def call(self, name, args):
        return self.ex.call(name, args)

    def node_call(self, method, args):
        return self.ex.call(f'{self.NODE}::<K, N, E>::{method}', args)

    # ---- setup
    def setup(self):
        for k, v in self.scen['nodes']:
            n = self.node_call('new', [self.val(k), self.val(v)])
            self.nodes.append(Cell(n))
            self.keys.append(self.val(k))
        self.boxes = [c.v.f[0].box for c in self.nodes]

    def key_of(self, noderef):
        return self.ex.deref(self.node_call('key', [noderef]))

    def value_of(self, noderef):
        v = self.ex.deref(self.node_call('value', [noderef]))
        # `*node` (Deref) must name the same value as value()
        w = self.ex.deref(self.ex.call(f'<{self.NODE}<K, N, E> as Deref>::deref', [noderef]))
        if not _same(v, w):
            return ['deref-differs', v, w]
        return v

    # ---- handle expressions: int | ['clone', h] | ['out', h, idx] | ['in', h, idx] | ['adj', h, idx]
    #      | ['find_out', h, key] | ['find_in', h, key] | ['find_adj', h, key] | ['graph', key]
    def handle(self, h, temps):
        """returns a Ref to a Node value; temporaries are appended to temps (dropped by caller)"""
        if isinstance(h, int):
            return Ref(self.nodes[h])
        kind = h[0]
        if kind == 'clone':
            base = self.handle(h[1], temps)
            c = Cell(self.ex.call(f'<{self.NODE}<K, N, E> as Clone>::clone', [base]))
            temps.append(c)
            return Ref(c)
        if kind in ('out', 'in', 'adj'):
            base = self.handle(h[1], temps)
            edges = self.iter_edges(base, kind)
            e = edges[h[2]]
            for j, other in enumerate(edges):
                if j != h[2]:
                    self.ex.drop(other)
            c = Cell(e)
            temps.append(c)
            fld = 0 if kind == 'in' else 1
            return Ref(c, (('f', fld),))
        if kind in ('find_out', 'find_in', 'find_adj'):
            base = self.handle(h[1], temps)
            meth = {'find_out': 'find_outbound', 'find_in': 'find_inbound', 'find_adj': 'find_adjacent'}[kind]
            r = self.node_call(meth, [base, Ref(Cell(self.val(h[2])))])
            if r.variant == 0:
                raise Unsupported('handle expression yields None')
            c = Cell(r.f[0])
            temps.append(c)
            return Ref(c)
        if kind == 'found':
            base = self.handle(h[1], temps)
            ap = self.algo_path('Bfs')
            sobj = self.node_call('bfs', [base])
            sobj = self.ex.call(f'{ap}::target', [sobj, Ref(Cell(self.keys[h[2]]))])
            sc = Cell(sobj)
            r = self.ex.call(f'{ap}::search', [Ref(sc)])
            self.ex.drop(sc.v)
            if r.variant == 0:
                raise Unsupported('handle expression yields None')
            c = Cell(r.f[0])
            temps.append(c)
            return Ref(c)
        if kind == 'graph':
            r = self.ex.call(f'{self.GRAPH}::<K, N, E>::get', [Ref(self.graph), Ref(Cell(self.val(h[1])))])
            if r.variant == 0:
                raise Unsupported('handle expression yields None')
            c = Cell(r.f[0])
            temps.append(c)
            return Ref(c)
        raise Unsupported('handle ' + str(h))

    def drop_temps(self, temps):
        for c in reversed(temps):
            if c.v is not None:
                self.ex.drop(c.v)

    # ---- adjacency through the public iterators
    def iter_edges(self, noderef, kind):
        meth, ity = {'out': ('iter_out', 'IterOut'), 'in': ('iter_in', 'IterIn'),
                     'adj': ('iter', 'NodeIterator')}[kind]
        it = self.node_call(meth, [noderef])
        cell = Cell(it)
        res = []
        while True:
            o = self.ex.call(f"<{self.fl}::node::{ity}<'_, K, N, E> as Iterator>::next", [Ref(cell)])
            if o.variant == 0:
                break
            res.append(o.f[0])
            if len(res) > 64:
                raise Budget('edge iterator does not end')
        return res

    def edge_triple(self, e):
        """Edge value -> (src key, dst key, value)"""
        ec = Cell(e)
        # through the accessor methods (source(), target(), value()), the API a user reads an edge with
        ep = f'{self.fl}::node::Edge::<K, N, E>'
        s = self.ex.call(f'{ep}::source', [Ref(ec)])
        t = self.ex.call(f'{ep}::target', [Ref(ec)])
        v = self.ex.call(f'{ep}::value', [Ref(ec)])
        return [self.key_of(s), self.key_of(t), self.ex.deref(v)]

    def adj_list(self, noderef, kind):
        out = []
        for e in self.iter_edges(noderef, kind):
            t = self.edge_triple(e)
            out.append([t[0] if kind == 'in' else t[1], t[2], t[1] if kind == 'in' else t[0]])
            self.ex.drop(e)
        return out

    def dump_node(self, i):
        r = Ref(self.nodes[i])
        d = {}
        if self.directed:
            o = self.adj_list(r, 'out')
            n = self.adj_list(r, 'in')
            d['out'] = [[k, v] for k, v, _ in o]
            d['in'] = [[k, v] for k, v, _ in n]
            d['self_ok'] = all(self.keys[i] is s or _same(s, self.keys[i]) for _, _, s in o + n)
            d['out_degree'] = self.node_call('out_degree', [r])
            d['in_degree'] = self.node_call('in_degree', [r])
            d['is_root'] = self.node_call('is_root', [r])
            d['is_leaf'] = self.node_call('is_leaf', [r])
            d['is_orphan'] = self.node_call('is_orphan', [r])
            fo, fi, ic = [], [], []
            for k in self.keys:
                kr = Ref(Cell(k))
                ic.append(self.node_call('is_connected', [r, kr]))
                fo.append(self.opt_key(self.node_call('find_outbound', [r, kr])))
                fi.append(self.opt_key(self.node_call('find_inbound', [r, kr])))
            d['is_connected'], d['find_out'], d['find_in'] = ic, fo, fi
        else:
            a = self.adj_list(r, 'adj')
            d['adj'] = [[k, v] for k, v, _ in a]
            d['self_ok'] = all(_same(s, self.keys[i]) for _, _, s in a)
            d['degree'] = self.node_call('degree', [r])
            d['is_orphan'] = self.node_call('is_orphan', [r])
            fa, ic = [], []
            for k in self.keys:
                kr = Ref(Cell(k))
                ic.append(self.node_call('is_connected', [r, kr]))
                fa.append(self.opt_key(self.node_call('find_adjacent', [r, kr])))
            d['is_connected'], d['find_adj'] = ic, fa
        d['key'] = self.key_of(r)
        d['value'] = self.value_of(r)
        return d

    def opt_key(self, o):
        if o.variant == 0:
            return None
        c = Cell(o.f[0])
        k = self.key_of(Ref(c))
        self.ex.drop(c.v)
        return k

    # ---- steps
    def step(self, st):
        op = st[0]
        hf = self.scen.get('hash_free')
        self.ex.hash_order = None if (hf is None or op in hf) else 'insertion'
        fn = getattr(self, 'op_' + op, None)
        if fn is None:
            raise Unsupported('scenario step ' + op)
        return fn(*st[1:])

    def op_connect(self, u, v, e):
        t = []
        self.node_call('connect', [self.handle(u, t), self.handle(v, t), self.val(e)])
        self.drop_temps(t)
        return 'ok'

    def op_try_connect(self, u, v, e):
        t = []
        r = self.node_call('try_connect', [self.handle(u, t), self.handle(v, t), self.val(e)])
        self.drop_temps(t)
        return 'ok' if r.variant == 0 else 'err:' + self.err_name(r.f[0])

    def op_disconnect(self, u, k):
        t = []
        r = self.node_call('disconnect', [self.handle(u, t), Ref(Cell(self.val(k)))])
        self.drop_temps(t)
        return ['ok', r.f[0]] if r.variant == 0 else 'err:' + self.err_name(r.f[0])

    def op_isolate(self, u):
        t = []
        self.node_call('isolate', [self.handle(u, t)])
        self.drop_temps(t)
        return 'ok'

    def op_query(self, u):
        """degree / predicate / lookup queries on one node"""
        return self.dump_node(u)

    def op_degq(self, u):
        r = Ref(self.nodes[u])
        if self.directed:
            return [self.node_call('out_degree', [r]), self.node_call('in_degree', [r])]
        return [self.node_call('degree', [r])]

    def op_edge_eq(self, u, i, v, j):
        """`==` of the i-th iterated edge of node u and the j-th of node v"""
        kind = 'out' if self.directed else 'adj'
        eu = self.iter_edges(Ref(self.nodes[u]), kind)
        ev = self.iter_edges(Ref(self.nodes[v]), kind)
        a, b = Cell(eu[i]), Cell(ev[j])
        r = self.ex.call(f'<{self.fl}::node::Edge<K, N, E> as PartialEq>::eq', [Ref(a), Ref(b)])
        for e in eu + ev:
            self.ex.drop(e)
        return r

    def op_clone_drop(self, u):
        t = []
        self.handle(['clone', u], t)
        self.drop_temps(t)
        return 'ok'

    def op_dump(self, lite=None):
        if lite:
            out = []
            for i in range(len(self.nodes)):
                r = Ref(self.nodes[i])
                d = {'key': self.key_of(r), 'value': self.value_of(r)}
                for kind in (('out', 'in') if self.directed else ('adj',)):
                    d[kind] = [[k, v] for k, v, _ in self.adj_list(r, kind)]
                out.append(d)
            return out
        return [self.dump_node(i) for i in range(len(self.nodes))]

    # ---- searches and orderings --------------------------------------------------------
    def F(self):
        f = self.ex.syms.get('F')
        if f is None:
            f = z3.Function('F', z3.IntSort(), z3.IntSort(), z3.IntSort(), z3.BoolSort())
            self.ex.syms['F'] = f
        return f

    def filter_value(self, spec, u, v, e):
        """outcome of the scenario's filter on edge (u,v,e): python bool (branching when symbolic)"""
        flt = spec.get('filter')
        if flt is None:
            return True
        if isinstance(flt, dict) and 's' in flt:
            r = self.ex.branch(self.F()(u, v, e))
            self.ftable.append((u, v, e, r))
            return r
        for (a, b, c, r) in flt['table']:
            if _same(self.val(a), u) and _same(self.val(b), v) and _same(self.val(c), e):
                return r
        return flt.get('default', True)

    def make_closure(self, spec, log):
        method = spec.get('method', 'none')
        if method == 'none':
            return None

        script = spec.get('script')
        count = [0]

        def fn(ex, edge_ref):
            t = self.edge_triple(ex.deref(edge_ref))
            extra = []
            if script is not None:
                lst = ('in' if spec.get('transpose') else 'out') if self.directed else 'adj'
                extra = [self.exists_now(lst, t[0], t[1], t[2])]
                if count[0] == script['at']:
                    self.script_obs = self.run_script(script['steps'])
                count[0] += 1
            if method == 'filter':
                r = self.filter_value(spec, *t)
                log.append(t + [r] + extra)
                return r
            log.append(t + extra)
            return UNIT()
        return Ref(Cell(PyFn(fn)))

    def run_script(self, steps):
        out = []
        for st in steps:
            out.append(self.step(st))
        return out

    def exists_now(self, lst, owner_key, other_key, val):
        """condition: the node with key owner_key currently lists (other_key, val) in its `lst` list"""
        from logic import OR, AND, EQ
        i = next(j for j, k in enumerate(self.keys) if _same(k, owner_key))
        ents = self.adj_list(Ref(self.nodes[i]), lst)
        return OR(AND([EQ(k, other_key), EQ(v, val)]) for k, v, _ in ents)

    def _loop_collect(self, spec, noderef, t):
        """`node.iter_x().map(|e| { ..script at the k-th element..; e }).collect::<Vec<_>>()`: std's from_iter consults
        size_hint after the first element and whenever its buffer is full"""
        ex = self.ex
        lst = {'collect_out': 'out', 'collect_in': 'in', 'collect_adj': 'adj'}[spec['kind']]
        it = self.node_call({'out': 'iter_out', 'in': 'iter_in', 'adj': 'iter'}[lst], [noderef])
        yields, sobs, n = [], [None], [0]

        def fn(ex_, e):
            tr = self.edge_triple(e)
            if lst == 'in':
                ok = self.exists_now('in', tr[1], tr[0], tr[2])
            else:
                ok = self.exists_now(lst, tr[0], tr[1], tr[2])
            yields.append(tr + [ok])
            if n[0] == spec['at']:
                sobs[0] = self.run_script(spec['script'])
            n[0] += 1
            if n[0] > 24:
                raise Budget('edge loop does not end')
            return e
        out = models.std_collect(ex, Agg('MapIter', [it, PyFn(fn)]))
        for e in out:
            ex.drop(e)
        self.drop_temps(t)
        return {'yields': yields, 'script': sobs[0]}

    def _loop_fold(self, spec, noderef, t):
        """`node.iter_x().for_each(|e| { ..script at the k-th element.. })`: internal iteration.  std's for_each is
        `self.fold((), ..)`; an iterator type of the crate that overrides `fold` is driven through its own fold MIR,
        otherwise through the default (a next() loop)"""
        ex = self.ex
        lst = {'fold_out': 'out', 'fold_in': 'in', 'fold_adj': 'adj'}[spec['kind']]
        it = self.node_call({'out': 'iter_out', 'in': 'iter_in', 'adj': 'iter'}[lst], [noderef])
        ity = it.kind.split('::')[-1]
        yields, sobs, n = [], [None], [0]

        def fn(ex_, acc, e):
            tr = self.edge_triple(e)
            ok = self.exists_now('in', tr[1], tr[0], tr[2]) if lst == 'in' else self.exists_now(lst, tr[0], tr[1], tr[2])
            yields.append(tr + [ok])
            if n[0] == spec['at']:
                sobs[0] = self.run_script(spec['script'])
            n[0] += 1
            if n[0] > 24:
                raise Budget('edge loop does not end')
            ex.drop(e)
            return acc
        own = [f for (f, tr, st) in ex.ix.methods.get((self.fl, ity, 'fold'), [])]
        if len(own) == 1:
            ex.call_fn(own[0], [it, Agg('tuple', []), PyFn(fn)])
        else:
            cell = Cell(it)
            while True:
                o = ex.call(f"<{self.fl}::node::{ity}<'_, K, N, E> as Iterator>::next", [Ref(cell)])
                if o.variant == 0:
                    break
                fn(ex, None, o.f[0])
        self.drop_temps(t)
        return {'yields': yields, 'script': sobs[0]}

    def op_loop(self, spec):
        """a user loop over a node's edges that runs a script of operations before its `at`-th next()"""
        ex = self.ex
        t = []
        noderef = self.handle(spec['node'], t)
        kind = spec['kind']
        if kind.startswith('collect_'):
            return self._loop_collect(spec, noderef, t)
        if kind.startswith('fold_'):
            return self._loop_fold(spec, noderef, t)
        if kind == 'into_iter':
            it = ex.call(f"<&'a {self.NODE}<K, N, E> as IntoIterator>::into_iter", [noderef])
            lst = 'out' if self.directed else 'adj'
        else:
            it = self.node_call(kind, [noderef])
            lst = {'iter_out': 'out', 'iter_in': 'in', 'iter': 'adj'}[kind]
        ity = it.kind.split('::')[-1]
        cell = Cell(it)
        yields, sobs, n = [], None, 0
        while True:
            if n == spec['at']:
                sobs = self.run_script(spec['script'])
            o = ex.call(f"<{self.fl}::node::{ity}<'_, K, N, E> as Iterator>::next", [Ref(cell)])
            if o.variant == 0:
                break
            e = o.f[0]
            tr = self.edge_triple(e)
            if lst == 'in':
                ok = self.exists_now('in', tr[1], tr[0], tr[2])
            else:
                ok = self.exists_now(lst, tr[0], tr[1], tr[2])
            yields.append(tr + [ok])
            ex.drop(e)
            n += 1
            if n > 24:
                raise Budget('edge loop does not end')
        self.drop_temps(t)
        return {'yields': yields, 'script': sobs}

    def algo_path(self, name):
        mod = {'Bfs': 'bfs', 'Dfs': 'dfs', 'Pfs': 'pfs', 'Order': 'order'}[name]
        return f"{self.fl}::node::algo::{mod}::{name}::<'_, K, N, E>"

    def path_edges(self, p):
        """Path value -> list of [u,v,e] (reads the public `edges` field)"""
        return [self.edge_triple(e) for e in p.f[0].f]

    def op_search(self, spec):
        ex = self.ex
        t = []
        root = self.handle(spec['root'], t)
        alg = spec['alg']
        name = {'bfs': 'Bfs', 'dfs': 'Dfs', 'pfs': 'Pfs'}[alg]
        ap = self.algo_path(name)
        s = self.node_call(alg, [root])
        log = []
        clo = self.make_closure(spec, log)
        # builder calls in the order the scenario asks for (default: priority, target, transpose, closure)
        for step in spec.get('order') or ('prio', 'target', 'transpose', 'method'):
            if step == 'prio':
                if alg == 'pfs':
                    s = ex.call(f"{ap}::{spec.get('prio', 'min')}", [s])
            elif step == 'target':
                if spec.get('target') is not None:
                    s = ex.call(f'{ap}::target', [s, Ref(Cell(self.keys[spec['target']]))])
            elif step == 'transpose':
                for _ in range(int(spec.get('transpose') or 0)):       # a number = that many transpose() calls
                    s = ex.call(f'{ap}::transpose', [s])
            elif step == 'method':
                if clo is not None:
                    s = ex.call(f"{ap}::{'filter' if spec['method'] == 'filter' else 'for_each'}", [s, clo])
            else:
                raise ValueError(step)
        sc = Cell(s)
        mode = spec['mode']
        meth = {'search': 'search', 'path': 'search_path', 'cycle': 'search_cycle'}[mode]

        def result_of(r):
            if r.variant == 0:
                return None
            if mode == 'search':
                return self.key_of(Ref(Cell(r.f[0])))
            return self.path_edges(r.f[0])
        r = ex.call(f'{ap}::{meth}', [Ref(sc)])
        res = result_of(r)
        extra = {}
        if spec.get('repeat'):
            # the same search object is run a second time (search_path and pfs search take &mut self)
            n1 = len(log)
            r2 = ex.call(f'{ap}::{meth}', [Ref(sc)])
            extra = {'result2': result_of(r2), 'calls2': log[n1:]}
            del log[n1:]
            ex.drop(r2)
        keep = spec.get('keep')
        if keep:
            self.kept[keep] = Cell(r)
        else:
            ex.drop(r)
        ex.drop(sc.v)
        self.drop_temps(t)
        out = {'result': res, 'calls': log}
        out.update(extra)
        return self._with_script(out, spec)

    def op_order(self, spec):
        ex = self.ex
        t = []
        root = self.handle(spec['root'], t)
        ap = self.algo_path('Order')
        mf = bool(spec.get('method_first'))       # the closure is attached before transpose() / pre() / post()
        if self.directed:
            s = self.node_call('preorder' if spec['kind'] == 'pre' else 'postorder', [root])
            if not mf:
                for _ in range(int(spec.get('transpose') or 0)):
                    s = ex.call(f'{ap}::transpose', [s])
        else:
            s = self.node_call('order', [root])
            if not mf:
                s = ex.call(f"{ap}::{spec['kind']}", [s])
        log = []
        clo = self.make_closure(spec, log)
        if clo is not None:
            s = ex.call(f"{ap}::{'filter' if spec['method'] == 'filter' else 'for_each'}", [s, clo])
        if mf:
            if self.directed:
                for _ in range(int(spec.get('transpose') or 0)):
                    s = ex.call(f'{ap}::transpose', [s])
            else:
                s = ex.call(f"{ap}::{spec['kind']}", [s])
        sc = Cell(s)
        if spec['mode'] == 'nodes':
            r = ex.call(f'{ap}::search_nodes', [Ref(sc)])
            rc = Cell(r)
            res = [self.key_of(Ref(rc, (('i', i),))) for i in range(len(r.f))]
        else:
            r = ex.call(f'{ap}::search_edges', [Ref(sc)])
            res = [self.edge_triple(e) for e in r.f]
        keep = spec.get('keep')
        if keep:
            self.kept[keep] = Cell(r)
        else:
            ex.drop(r)
        ex.drop(sc.v)
        self.drop_temps(t)
        return self._with_script({'result': res, 'calls': log}, spec)

    def _with_script(self, out, spec):
        if spec.get('script') is not None:
            out['script'] = getattr(self, 'script_obs', None)
            self.script_obs = None
        return out

    # ---- graph container ------------------------------------------------------------------
    def gcall(self, method, args):
        return self.ex.call(f'{self.GRAPH}::<K, N, E>::{method}', args)

    def alias_of(self, node):
        """index of the harness node that is the same allocation as `node` (None if none)"""
        box = node.f[0].box
        for i, c in enumerate(self.nodes):
            if c.v is not None and c.v is not UNINIT and c.v.f[0].box is box:
                return i
        return None

    def node_obs(self, node):
        c = Cell(node)
        o = {'alias': self.alias_of(node), 'key': self.key_of(Ref(c)), 'value': self.value_of(Ref(c))}
        self.ex.drop(c.v)
        return o

    def op_g_new(self, how=None):
        if how == 'default':
            self.graph = Cell(self.ex.call(f'<{self.GRAPH}<K, N, E> as Default>::default', []))
        elif how == 'with_capacity':
            self.graph = Cell(self.gcall('with_capacity', [4]))
        else:
            self.graph = Cell(self.gcall('new', []))
        return 'ok'

    def op_g_insert(self, i):
        n = self.ex.call(f'<{self.NODE}<K, N, E> as Clone>::clone', [Ref(self.nodes[i])])
        return self.gcall('insert', [Ref(self.graph), n])

    def op_g_get(self, k):
        r = self.gcall('get', [Ref(self.graph), Ref(Cell(self.val(k)))])
        return None if r.variant == 0 else self.node_obs(r.f[0])

    def op_g_index(self, k, by_ref=False):
        if by_ref:
            r = self.ex.call(f"<{self.GRAPH}<K, N, E> as Index<&'a K>>::index", [Ref(self.graph), Ref(Cell(self.val(k)))])
        else:
            r = self.ex.call(f'<{self.GRAPH}<K, N, E> as Index<K>>::index', [Ref(self.graph), self.val(k)])
        n = self.ex.deref(r)
        return {'alias': self.alias_of(n), 'key': self.key_of(r), 'value': self.value_of(r)}

    def op_g_contains(self, k):
        return self.gcall('contains', [Ref(self.graph), Ref(Cell(self.val(k)))])

    def op_g_len(self):
        return self.gcall('len', [Ref(self.graph)])

    def op_g_is_empty(self):
        return self.gcall('is_empty', [Ref(self.graph)])

    def op_g_remove(self, k, keep_slot=None):
        r = self.gcall('remove', [Ref(self.graph), Ref(Cell(self.val(k)))])
        if r.variant == 0:
            return None
        if keep_slot is None:
            return self.node_obs(r.f[0])
        # the caller keeps the node remove() hands out: it becomes the harness's handle number keep_slot again
        self.nodes[keep_slot].v = r.f[0]
        c = self.nodes[keep_slot]
        return {'alias': self.alias_of(c.v), 'key': self.key_of(Ref(c)), 'value': self.value_of(Ref(c))}

    def _node_vec(self, v):
        out = [self.alias_of(n) for n in v.f]
        self.ex.drop(v)
        return out

    def op_g_to_vec(self):
        return self._node_vec(self.gcall('to_vec', [Ref(self.graph)]))

    def op_g_roots(self):
        return self._node_vec(self.gcall('roots', [Ref(self.graph)]))

    def op_g_leaves(self):
        return self._node_vec(self.gcall('leaves', [Ref(self.graph)]))

    def op_g_orphans(self):
        return self._node_vec(self.gcall('orphans', [Ref(self.graph)]))

    def op_g_iter(self):
        it = Cell(self.gcall('iter', [Ref(self.graph)]))
        out = []
        while True:
            r = models.iter_next(self.ex, Ref(it))
            if r.variant == 0:
                break
            kr, nr = r.f[0].f
            out.append([self.ex.deref(kr), self.alias_of(self.ex.deref(nr))])
        return out

    def op_g_to_dot(self):
        r = self.gcall('to_dot', [Ref(self.graph)])
        return models.render(r.f)

    def op_g_to_dot_attr(self, spec):
        def strvec(pairs):
            return Some(Agg('Vec', [Agg('tuple', [Agg('String', [k]), Agg('String', [v])]) for k, v in pairs]))

        def gattr(ex, g):
            return NONE() if spec.get('gattr') is None else strvec(spec['gattr'])

        def nattr(ex, nref):
            k = self.key_of(nref)
            for key, pairs in spec.get('nattr', []):
                if _same(key, k):
                    return strvec(pairs)
            return NONE()

        def eattr(ex, uref, vref, eref):
            u, v = self.key_of(uref), self.key_of(vref)
            for a, b, pairs in spec.get('eattr', []):
                if _same(a, u) and _same(b, v):
                    return strvec(pairs)
            return NONE()
        r = self.gcall('to_dot_with_attr', [Ref(self.graph), Ref(Cell(PyFn(gattr))), Ref(Cell(PyFn(nattr))),
                                            Ref(Cell(PyFn(eattr)))])
        return models.render(r.f)

    def op_g_scc(self):
        r = self.gcall('scc', [Ref(self.graph)])
        out = []
        for comp in r.f:
            cc = Cell(comp)
            out.append([self.key_of(Ref(cc, (('i', i),))) for i in range(len(comp.f))])
        self.ex.drop(r)
        return out

    # ---- serde (data-model boundary) --------------------------------------------------------
    def serialize_graph(self):
        r = self.ex.call(f'<{self.GRAPH}<K, N, E> as Serialize>::serialize::<S>', [Ref(self.graph), Agg('StubSerializer', [])])
        if r.variant != 0:
            return None
        nodes, edges = r.f[0].f[0]
        return {'nodes': nodes, 'edges': edges}

    def deserialize_graph(self, doc):
        """doc: {'nodes': list | None | 'err', 'edges': list | None | 'err'} -> Result<Graph>"""
        els = []
        ann = doc.get('announce') or {}

        def lst(name):
            if doc[name] == 'err':
                return 'err'
            rows = [[self.val(x) for x in row] for row in doc[name]]
            # a length-prefixed format hands the announced length to size_hint(): untrusted input may announce anything
            return {'rows': rows, 'announce': ann[name]} if ann.get(name) else rows
        if doc.get('nodes') is not None:
            els.append(lst('nodes'))
            if doc.get('edges') is not None:
                els.append(lst('edges'))
                if doc.get('tail') == 'err':
                    els.append('err')            # the input is damaged after the edge list
                elif doc.get('tail') == 'extra':
                    els.append([])               # a well-formed third element
        seq = Agg('StubSeq', [els])
        return self.ex.call(f"<{self.GRAPH}<K, N, E> as Deserialize<'de>>::deserialize::<D>", [seq])

    def graph_members_dump(self, gcell, order_keys=None, lite=False):
        """dump of every member of a container (iteration in insertion order of the model)"""
        saved = (self.nodes, self.keys, self.ex.hash_order)
        self.ex.hash_order = 'insertion'
        it = Cell(self.ex.call(f'{self.GRAPH}::<K, N, E>::iter', [Ref(gcell)]))
        members = []
        while True:
            r = models.iter_next(self.ex, Ref(it))
            if r.variant == 0:
                break
            kr, nr = r.f[0].f
            members.append((self.ex.deref(kr), self.ex.call(f'<{self.NODE}<K, N, E> as Clone>::clone', [nr])))
        if order_keys is not None:
            members.sort(key=lambda kv: order_keys.index(kv[0]) if kv[0] in order_keys else 99)
        self.nodes = [Cell(n) for _, n in members]
        self.keys = [k for k, _ in members]
        try:
            out = self.op_dump('lite' if lite else None)
        finally:
            for c in self.nodes:
                self.ex.drop(c.v)
            self.nodes, self.keys, self.ex.hash_order = saved
        return out

    def op_g_roundtrip(self):
        doc = self.serialize_graph()
        if doc is None:
            return {'doc': None}
        r = self.deserialize_graph(doc)
        if r.variant != 0:
            return {'doc': doc, 'graph2': 'err:' + str(r.f[0].f[0]) if r.f[0].f else 'err'}
        g2 = Cell(r.f[0])
        n = self.ex.call(f'{self.GRAPH}::<K, N, E>::len', [Ref(g2)])
        dump = self.graph_members_dump(g2, order_keys=[k for k in self.keys if not is_sym(k)], lite=True)
        self.ex.drop(g2.v)
        return {'doc': doc, 'graph2': dump, 'len2': n, 'cbor_same': True}

    def op_g_deserialize(self, doc):
        r = self.deserialize_graph(doc)
        if r.variant != 0:
            return {'result': 'err'}
        g2 = Cell(r.f[0])
        n = self.ex.call(f'{self.GRAPH}::<K, N, E>::len', [Ref(g2)])
        dump = self.graph_members_dump(g2)
        self.ex.drop(g2.v)
        return {'result': 'ok', 'len': n, 'members': dump, 'cbor_same': True}

    # ---- ownership (C19) ------------------------------------------------------------------
    def op_drop(self, i):
        v = self.nodes[i].v
        self.nodes[i].v = None
        self.ex.drop(v)
        return 'ok'

    def op_drop_graph(self):
        v = self.graph.v
        self.graph = None
        self.ex.drop(v)
        return 'ok'

    def op_drop_kept(self, name):
        c = self.kept.pop(name)
        self.ex.drop(c.v)
        return 'ok'

    def op_drops(self):
        return [b.dropped for b in self.boxes]

    def _nodes_in(self, v):
        if isinstance(v, Agg):
            if v.kind.endswith('node::Node'):
                return [v]
            out = []
            for x in v.f:
                out += self._nodes_in(x)
            return out
        return []

    def op_use_kept(self, name):
        out = []
        for n in self._nodes_in(self.kept[name].v):
            r = Ref(Cell(n))
            if self.directed:
                deg = self.node_call('out_degree', [r]) + self.node_call('in_degree', [r])
            else:
                deg = self.node_call('degree', [r])
            out.append([self.key_of(r), self.value_of(r), deg])
        return out

    def leak_report(self):
        """(strong, weak) counts of every node allocation; all zero once every handle is gone"""
        return [[b.strong, b.weak] for b in self.boxes]

    # ---- concurrency (C17) ------------------------------------------------------------------
    def lock_owner(self, lock):
        for i, c in enumerate(self.nodes):
            try:
                if c.v.f[0].box.cell.v.f[2] is lock:
                    return i
            except Exception:
                pass
        return None

    def op_threads(self, scripts):
        """run each script (a list of steps) in its own logical thread under every schedule"""
        from engine import Sched
        results = [[] for _ in scripts]

        def mk(i, script):
            def body():
                for st in script:
                    results[i].append(self.step(st))
                return True
            return body
        sched = Sched(self.ex, [mk(i, s) for i, s in enumerate(scripts)], preemption_bound=self.scen.get('preemption_bound'))
        # resolve lock identities to node indices while the locks are still reachable
        outcome = sched.run()
        for t in sched.threads:
            if t.exc is not None:
                results[t.id - 1].append({t.exc[0]: t.exc[1]})
                if outcome == 'ok':
                    outcome = t.exc[0]
        schedule = []
        ids = {}
        for c in self.nodes:
            try:
                ids[id(c.v.f[0].box.cell.v.f[2])] = self.nodes.index(c)
            except Exception:
                pass
        for ent in sched.schedule:
            schedule.append(ent[:3] + [ids.get(ent[3])] if len(ent) > 3 else ent)
        blocked = [[t.id, t.waiting[1], ids.get(id(t.waiting[0]))] for t in sched.threads if t.state in ('queued', 'at_lock') and t.waiting]
        return {'outcome': outcome, 'returns': results, 'schedule': schedule, 'blocked': blocked}

    def err_name(self, e):
        vs = self.ex.ix.enums.get(('error', 'Error'))
        return vs[e.variant]

    # ---- run
    def run(self):
        """returns observations; never raises for program-level abnormal outcomes"""
        ex = self.ex
        try:
            self.setup()
            for st in self.scen['steps']:
                self.obs.append(self.step(st))
        except RustPanic as p:
            self.obs.append({'panic': str(p)})
        except Deadlock as d:
            self.obs.append({'deadlock': str(d)})
        except Budget as b:
            self.obs.append({'hang': str(b)})
        return self.obs


def _same(a, b):
    if is_sym(a) or is_sym(b):
        return z3.is_true(z3.simplify(a == b))
    return a == b


# ------------------------------------------------------------------ concretisation
def concretise(x, model):
    """replace symbolic placeholders / z3 terms by the model's integers (JSON-able result)"""
    if isinstance(x, dict):
        if set(x.keys()) == {'s'}:
            v = model.eval(z3.Int(x['s']), model_completion=True)
            return v.as_long()
        return {k: concretise(v, model) for k, v in x.items()}
    if isinstance(x, (list, tuple)):
        return [concretise(v, model) for v in x]
    if is_sym(x):
        v = model.eval(x, model_completion=True)
        if z3.is_bool(v):
            return z3.is_true(v)
        return v.as_long()
    return x
