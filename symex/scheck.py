"""Generic scenario-based check: symbolic exploration of every work item, oracle through the
solver, native replay of counterexamples, differential validation of the executor."""
import json
import random

import z3

import runner
from runner import Report, Native, parallel, parallel_stream, triage, obs_equal


class NativeCtx:
    """oracle context for concrete (native) observations"""

    def __init__(self, scen):
        self.scen = scen

    def val(self, x):
        return x

    def fv(self, spec):
        flt = spec.get('filter')

        def f(u, v, e):
            if flt is None:
                return True
            for (a, b, c, r) in flt['table']:
                if a == u and b == v and c == e:
                    return r
            return flt.get('default', True)
        return f


class SymCtx:
    def __init__(self, driver):
        self.d = driver

    def val(self, x):
        return self.d.val(x)

    def fv(self, spec):
        return lambda u, v, e: self.d.filter_value(spec, u, v, e)


def json_norm(o):
    if isinstance(o, (list, tuple)):
        return [json_norm(x) for x in o]
    if isinstance(o, dict):
        return {k: json_norm(v) for k, v in o.items()}
    if isinstance(o, z3.ExprRef):
        s = z3.simplify(o)
        if z3.is_int_value(s):
            return s.as_long()
        if z3.is_true(s):
            return True
        if z3.is_false(s):
            return False
        return str(s)
    return o


def truthy(c):
    if isinstance(c, bool):
        return c
    return z3.is_true(z3.simplify(c))


def concretise_scen(scen, model, driver):
    from driver import concretise
    s = json.loads(json.dumps(scen, default=lambda o: None))

    def fix(x):
        if isinstance(x, dict):
            if set(x.keys()) == {'s'} and x['s'] == 'F':
                tab = []
                seen = set()
                for (u, v, e, r) in driver.ftable:
                    row = concretise([u, v, e], model) + [r]
                    if tuple(row[:3]) not in seen:
                        seen.add(tuple(row[:3]))
                        tab.append(row)
                return {'table': tab, 'default': True}
            if set(x.keys()) == {'s'}:
                return concretise(x, model)
            return {k: fix(v) for k, v in x.items()}
        if isinstance(x, list):
            return [fix(v) for v in x]
        return x
    return fix(s)


def default_symrun(ex, scen, driver_setup=None):
    from driver import Driver
    d = Driver(ex, scen)
    if driver_setup:
        driver_setup(ex, d)
    obs = d.run()
    return obs, d


def make_worker(prop, evaluate, driver_setup=None, symrun=None):
    def worker(item):
        from engine import explore
        cell, scen = item
        ex = runner.get_exec()

        def harness(ex):
            if symrun:
                obs, d = symrun(ex, scen)
            else:
                obs, d = default_symrun(ex, scen, driver_setup)
            conds = evaluate(prop, scen, obs, SymCtx(d))
            out = []
            for i, m in ex.prove_all(conds)[:2]:
                out.append({'scen': concretise_scen(scen, m, d), 'msg': conds[i][1], 'kind': conds[i][2]})
            return out
        st = explore(ex, harness)
        return {'paths': st['paths'], 'solver_calls': st['solver_calls'], 'asserts': st['asserts'], 'solver_s': st['solver_s'], 'cross': st['cross'],
                'steps': st['steps'], 'infeasible': st['infeasible'], 'findings': st['findings'],
                'cells': [str(cell)], 'cov_fns': list(ex.cov_fns), 'cov_prims': list(ex.cov_prims), 'sample': scen}
    return worker


def native_evaluator(prop, evaluate):
    def ev(f, obs):
        scen = f['scen']
        return [msg for c, msg, kind in evaluate(prop, scen, obs, NativeCtx(scen)) if not truthy(c)]
    return ev


def random_concrete(scen, rnd):
    """replace every symbolic placeholder by a small random integer / a random filter table"""
    vals = {}

    def conc(x):
        if isinstance(x, dict) and set(x.keys()) == {'s'}:
            if x['s'] == 'F':
                return {'table': [], 'default': True, 'random': rnd.randint(0, 1 << 30)}
            return vals.setdefault(x['s'], rnd.randint(-2, 2))
        if isinstance(x, dict):
            return {k: conc(v) for k, v in x.items()}
        if isinstance(x, list):
            return [conc(v) for v in x]
        return x
    s = conc(scen)
    # a random pure filter is a table over all (u, v, e) with e among the scenario's values
    n = len(s['nodes'])
    evals = sorted({v for v in vals.values()} | {0})

    def fill(x):
        if isinstance(x, dict):
            if 'table' in x and 'random' in x:
                r2 = random.Random(x.pop('random'))
                x['table'] = [[u, v, e, r2.random() < 0.6] for u in range(n) for v in range(n) for e in evals]
            for v in x.values():
                fill(v)
        elif isinstance(x, list):
            for v in x:
                fill(v)
    fill(s)
    return s


SETLIKE = ('g_to_vec', 'g_roots', 'g_leaves', 'g_orphans', 'g_iter')


def canon_obs(scen, obs):
    """order-insensitive form of set-like container views (their order is the hash map's)"""
    if not isinstance(obs, list) or 'steps' not in scen:
        return obs
    if len(obs) == 2 and len(scen['steps']) > 2 and all(isinstance(o, list) for o in obs):
        return [canon_obs(scen, o) for o in obs]          # a pair of runs (C15)
    out = list(obs)
    for i, st in enumerate(scen['steps']):
        if i < len(out) and st[0] in SETLIKE and isinstance(out[i], list):
            out[i] = sorted(out[i], key=lambda x: json.dumps(x, sort_keys=True))
    return out


def validate(rep, native, scens, driver_setup=None, symrun=None, natrun=None, vcanon=None):
    """same concrete scenarios through executor and native build; any difference indicts the engine"""
    nat = [natrun(native, s) for s in scens] if natrun else native.run(scens)

    def vworker(pair):
        from engine import explore
        from driver import Driver
        scen, nobs = pair
        ex = runner.get_exec()
        res = {}

        def h(ex):
            if symrun:
                res['obs'], _ = symrun(ex, scen)
            else:
                res['obs'], _ = default_symrun(ex, scen, driver_setup)
        seen = []

        def h2(ex):
            h(ex)
            seen.append(json_norm(res['obs']))
        explore(ex, h2, max_paths=400)
        cz = (lambda o: vcanon(scen, o)) if vcanon else (lambda o: o)
        ok = any(obs_equal(canon_obs(scen, cz(sym)), canon_obs(scen, cz(nobs))) for sym in seen)
        return {'ok': ok, 'scen': scen, 'sym': seen[0], 'nat': nobs, 'paths_tried': len(seen)}
    for r in parallel(list(zip(scens, nat)), vworker):
        if 'inconclusive' in r:
            rep.inconclusive.append(r)
        elif r['ok']:
            rep.validated += 1
        else:
            rep.validation_mismatch.append({'scenario': r['scen'], 'executor': r['sym'], 'native': r['nat']})


def scenario_check(prop, tier, seed, items, evaluate, sig_of, bounds, assumptions, rule, expected_cells=None,
                   n_validate=None, driver_setup=None, hooks=False, chunksize=8, symrun=None, natrun=None, pre_finish=None,
                   stream=None, escalate=None, vcanon=None):
    rep = Report(prop, tier, seed)
    rep.bounds = bounds
    rnd = random.Random(seed)
    items = list(items)
    rnd.shuffle(items)
    rep.extra['sample_fallback'] = items[0][1]
    native = Native(hooks)
    nv = n_validate if n_validate is not None else (60 if tier == 'quick' else 200)
    picks = rnd.sample(items, min(nv, len(items)))
    # ... plus one scenario of every cell, so that small families are always part of the translator validation
    seen_cells = {str(c) for c, _ in picks}
    for c, sc in items:
        if str(c) not in seen_cells and len(seen_cells) < nv + 60:
            seen_cells.add(str(c))
            picks.append((c, sc))
    validate(rep, native, [random_concrete(s, rnd) for _, s in picks], driver_setup, symrun, natrun, vcanon)
    for r in parallel(items, make_worker(prop, evaluate, driver_setup, symrun), chunksize=chunksize):
        rep.absorb(r)
    if stream is not None:
        # large families: generated lazily, results folded in as they arrive
        parallel_stream(stream(), make_worker(prop, evaluate, driver_setup, symrun), rep.absorb, chunksize=128)
    rep.hash_collisions_possible = any(' as Hash>::hash' in p for p in rep.cov_prims)      # the code hashes keys itself
    triage(rep, native, native_evaluator(prop, evaluate), sig_of, natrun=natrun, escalate=escalate)
    if expected_cells is not None:
        missing = set(map(str, expected_cells)) - set(rep.cells)
        if missing:
            rep.inconclusive.append({'inconclusive': f'vacuity: no path reached cells {sorted(missing)[:6]}', 'item': ''})
    if pre_finish:
        pre_finish(rep, native)
    return rep.finish(assumptions=assumptions, rule=rule)
