"""C17: concurrent operations on sync nodes terminate and serialise.

Scenario: connect* ; dump ; threads [[call..], [call..], ..] ; dump
Every interleaving of lock acquisitions is a path of the executor (free choice before each read()/write()).
"""
import itertools

from logic import AND, OR, EQ
from nodeops import canon_sequences, used_nodes, invariants

FLAVOURS = ('sync_digraph', 'sync_ungraph')
HOOKS = False          # the MIR is dumped without the hook; only the native replayer is built with --cfg gdsl_verif


def calls(flavour, n, used):
    lim = min(used + 1, n)
    out = []
    for a in range(lim):
        out.append(['isolate', a])
        for b in range(min(max(used, a + 1) + 1, n)):
            out.append(['connect', a, b, {'s': 'x'}])
            out.append(['try_connect', a, b, {'s': 'x'}])
            out.append(['disconnect', a, b])
    return out


def queries(flavour, n, used):
    out = []
    for a in range(min(used + 1, n)):
        out.append(['degq', a])
        out.append(['search', {'alg': 'bfs', 'root': a, 'target': None, 'mode': 'path', 'method': 'none', 'transpose': False}])
    return out


def scenarios(flavour, n, max_edges, shape, with_queries, pb=2, removals_only=False, min_edges=0):
    """shape: tuple of calls per thread, e.g. (1, 1), (2, 1), (1, 1, 1)"""
    for seq in canon_sequences(n, max_edges):
        if len(seq) < min_edges:
            continue
        used = used_nodes(seq)
        pre = [['connect', u, v, {'s': f'e{j}'}] for j, (u, v) in enumerate(seq)]
        nodes = [[i, 100 + i] for i in range(n)]
        muts = calls(flavour, n, used)
        if removals_only:
            # removals of existing edges only: two threads taking different entries out of the same lists
            present = {tuple(p) for p in seq} | ({(v, u) for u, v in seq} if 'ungraph' in flavour else set())
            muts = [c for c in muts if (c[0] == 'disconnect' and (c[1], c[2]) in present) or c[0] == 'isolate']
        pool = muts + (queries(flavour, n, used) if with_queries else [])
        per_thread = [list(itertools.product(range(len(pool)), repeat=k)) for k in shape]
        seen = set()
        for combo in itertools.product(*per_thread):
            # threads are interchangeable: canonical order of equal-length scripts
            key = tuple(sorted(combo)) if len(set(shape)) == 1 else combo
            if key in seen:
                continue
            seen.add(key)
            if not any(pool[i][0] in ('connect', 'try_connect', 'disconnect', 'isolate') for th in combo for i in th):
                continue
            scripts = []
            c = 0
            for th in combo:
                sc = []
                for i in th:
                    st = [x if not isinstance(x, dict) or 's' not in x else {'s': f'x{c}'} for x in pool[i]]
                    c += 1
                    sc.append(st)
                scripts.append(sc)
            kinds = sorted({st[0] for sc in scripts for st in sc})
            yield (flavour, '+'.join(kinds)), {'flavour': flavour, 'nodes': nodes,
                                              'steps': pre + [['dump', 'lite'], ['threads', scripts], ['dump']],
                                              'preemption_bound': pb, 'meta': {'seq': seq, 'shape': list(shape)}}


# ------------------------------------------------------------------ sequential reference (same executor, no threads)
_SEQ_CACHE = {}


def sequential_outcomes(ex, scen):
    """outcomes of every sequential order of the calls that respects each thread's own order"""
    import json
    from driver import Driver
    key = json.dumps([scen['steps'], scen['nodes'], scen['flavour']], sort_keys=True, default=str)
    if key in _SEQ_CACHE:
        return _SEQ_CACHE[key]
    scripts = scen['steps'][-2][1]
    pre = scen['steps'][:-3]
    tags = [i for i, sc in enumerate(scripts) for _ in sc]
    outs = []
    for order in sorted(set(itertools.permutations(tags))):
        pos = [0] * len(scripts)
        steps = []
        who = []
        for t in order:
            steps.append(scripts[t][pos[t]])
            who.append((t, pos[t]))
            pos[t] += 1
        s2 = dict(scen)
        s2['steps'] = pre + steps + [['dump']]
        d = Driver(ex, s2)
        obs = d.run()
        if len(obs) != len(s2['steps']) or isinstance(obs[-1], dict):
            continue            # a sequential order that ends abnormally is C03's business, not a reference
        rets = [[None] * len(sc) for sc in scripts]
        for (t, p), o in zip(who, obs[len(pre):-1]):
            rets[t][p] = o
        outs.append({'order': list(order), 'returns': rets, 'final': obs[-1]})
    _SEQ_CACHE[key] = outs
    return outs


MUTATING = ('connect', 'try_connect', 'disconnect', 'isolate')


def lists(flavour, dump):
    if flavour == 'sync_digraph':
        return [[d['out'], d['in']] for d in dump]
    return [[d['adj']] for d in dump]


def evaluate(prop, scen, obs, ctx, seq=None):
    fl = scen['flavour']
    scripts = scen['steps'][-2][1]
    desc = ' || '.join('; '.join(fmt_call(st) for st in sc) for sc in scripts)
    # find the threads observation
    ti = len(scen['steps']) - 2
    if len(obs) <= ti:
        return [(False, f'scenario ended before the concurrent part: {obs[-1]}', 'abnormal')]
    th = obs[ti]
    if isinstance(th, dict) and 'outcome' not in th:
        return [(False, f'concurrent part ended abnormally: {th}', 'abnormal')]
    cs = []
    if th['outcome'] != 'ok':
        detail = th.get('blocked') or [r[-1] for r in th['returns'] if r and isinstance(r[-1], dict)]
        return [(False, f'[{desc}]: {th["outcome"]}: {detail}', th['outcome'])]
    if len(obs) < len(scen['steps']) or isinstance(obs[-1], dict):
        return [(False, f'[{desc}]: final dump failed: {obs[-1]}', 'abnormal')]
    final = obs[-1]
    for c, msg in invariants(fl, final):
        cs.append((c, f'[{desc}]: at quiescence: {msg}', 'invariant'))
    if seq is None:
        return cs
    alts = []
    for so in seq:
        conds = [EQ(lists(fl, final), lists(fl, so['final']))]
        for t, sc in enumerate(scripts):
            for p, st in enumerate(sc):
                if st[0] in MUTATING:
                    conds.append(EQ(th['returns'][t][p], so['returns'][t][p]))
        alts.append(AND(conds))
    cs.append((OR(alts), f'[{desc}]: final graph and return values {th["returns"]} match no sequential order of the calls', 'not-serialisable'))
    return cs


def fmt_call(st):
    if st[0] in ('connect', 'try_connect'):
        return f'{st[1]}.{st[0]}({st[2]})'
    if st[0] == 'disconnect':
        return f'{st[1]}.disconnect(key {st[2]})'
    if st[0] == 'search':
        return f'{st[1]["root"]}.bfs()'
    return f'{st[1]}.{st[0]}()'


def _split_threads(scen):
    """threads whose lock acquisitions are interleaved with another thread's in the counterexample's schedule: some
    other thread is granted a lock between this thread's first and last grant"""
    sched = scen.get('schedule') or []
    grants = [(i, e[0]) for i, e in enumerate(sched) if isinstance(e, list) and len(e) > 1 and e[1] in ('attempt', 'wake', 'start')]
    out = set()
    by = {}
    for i, t in grants:
        by.setdefault(t, []).append(i)
    for t, idx in by.items():
        lo, hi = idx[0], idx[-1]
        if any(t2 != t and lo < i < hi for i, t2 in grants):
            out.add(t)
    return out


def sig_of(f):
    scen = f['scen']
    scripts = scen['steps'][-2][1]
    ops = sorted({st[0] for sc in scripts for st in sc})
    split = _split_threads(scen)
    # which kinds of call were cut in two by another thread (thread ids in the schedule are 1-based)
    split_ops = sorted({st[0] for ti, sc in enumerate(scripts) if (ti + 1) in split for st in sc})
    return {'flavour': scen['flavour'], 'kind': f['kind'], 'ops': '+'.join(ops),
            'has_connect': any(o in ('connect', 'try_connect') for o in ops), 'has_isolate': 'isolate' in ops,
            'has_disconnect': 'disconnect' in ops, 'has_degq': 'degq' in ops,
            'connect_split': any(o in ('connect', 'try_connect') for o in split_ops),
            'split': '+'.join(split_ops),
            'disconnect_split': 'disconnect' in split_ops, 'isolate_split': 'isolate' in split_ops,
            # does a (try_)connect of the scripts join two nodes that an initial edge already joins (either direction)?
            'connect_on_old_pair': any(st[0] in ('connect', 'try_connect') and frozenset((st[1], st[2])) in
                                       {frozenset((p[1], p[2])) for p in scen['steps'] if p[0] == 'connect'}
                                       for sc in scripts for st in sc)}


# ------------------------------------------------------------------ check driver
def make_worker(prop):
    def worker(item):
        import runner
        from engine import explore
        from driver import Driver
        import scheck
        cell, scen = item
        ex = runner.get_exec()

        def harness(ex):
            seq = sequential_outcomes(ex, scen)
            d = Driver(ex, scen)
            obs = d.run()
            conds = evaluate(prop, scen, obs, scheck.SymCtx(d), seq=seq)
            out = []
            for i, m in ex.prove_all(conds)[:1]:
                cs = scheck.concretise_scen(scen, m, d)
                ti = len(scen['steps']) - 2
                th = obs[ti] if len(obs) > ti and isinstance(obs[ti], dict) else {}
                cs['schedule'] = th.get('schedule')
                cs['model_outcome'] = {'outcome': th.get('outcome'), 'blocked': th.get('blocked'),
                                       'returns': scheck.json_norm(__import__('driver').concretise(th.get('returns'), m))}
                out.append({'scen': cs, 'msg': conds[i][1], 'kind': conds[i][2]})
            return out
        st = explore(ex, harness, max_paths=20000)
        return {'paths': st['paths'], 'solver_calls': st['solver_calls'], 'asserts': st['asserts'], 'solver_s': st['solver_s'], 'cross': st['cross'], 'steps': st['steps'],
                'infeasible': st['infeasible'], 'findings': st['findings'], 'cells': [str(cell)],
                'cov_fns': list(ex.cov_fns), 'cov_prims': list(ex.cov_prims), 'sample': scen}
    return worker


def items_for(tier):
    items = []
    for fl in FLAVOURS:
        if tier == 'quick':
            items += list(scenarios(fl, 2, 1, (1, 1), True))
            items += list(scenarios(fl, 3, 1, (1, 1), False))
            items += list(scenarios(fl, 3, 2, (1, 1), False, removals_only=True, min_edges=2))
        else:
            items += list(scenarios(fl, 3, 2, (1, 1), True))
            items += list(scenarios(fl, 2, 1, (2, 1), False))
            items += list(scenarios(fl, 2, 1, (1, 1, 1), False))
    return items


_NAT_SEQ = {}


def native_sequential(native, scen):
    import json
    key = json.dumps([scen['flavour'], scen['nodes'], scen['steps'][:-3], scen['steps'][-2][1]], sort_keys=True)
    if key in _NAT_SEQ:
        return _NAT_SEQ[key]
    scripts = scen['steps'][-2][1]
    pre = scen['steps'][:-3]
    tags = [i for i, sc in enumerate(scripts) for _ in sc]
    scens, whos = [], []
    for order in sorted(set(itertools.permutations(tags))):
        pos = [0] * len(scripts)
        steps, who = [], []
        for t in order:
            steps.append(scripts[t][pos[t]])
            who.append((t, pos[t]))
            pos[t] += 1
        s2 = {'flavour': scen['flavour'], 'nodes': scen['nodes'], 'steps': pre + steps + [['dump']]}
        scens.append(s2)
        whos.append(who)
    outs = []
    for s2, who, obs in zip(scens, whos, native.run(scens)):
        if len(obs) != len(s2['steps']) or isinstance(obs[-1], dict):
            continue
        rets = [[None] * len(sc) for sc in scripts]
        for (t, p), o in zip(who, obs[len(pre):-1]):
            rets[t][p] = o
        outs.append({'returns': rets, 'final': obs[-1]})
    _NAT_SEQ[key] = outs
    return outs


def with_schedule(scen, schedule):
    s = dict(scen)
    steps = list(scen['steps'])
    steps[-2] = ['threads', scen['steps'][-2][1], schedule or []]
    s['steps'] = steps
    return s


def native_failures(prop, scen, obs, seq):
    import scheck
    return [m for c, m, k in evaluate(prop, scen, obs, scheck.NativeCtx(scen), seq=seq) if not scheck.truthy(c)]


def natrun(native, scen):
    """forced schedule first; if that does not reproduce, free-running repetitions (the schedule of a
    model counterexample can only be forced at the statement-level lock points the hook offers)"""
    seq = native_sequential(native, scen)
    obs = native.run([with_schedule(scen, scen.get('schedule'))], watchdog_ms=6000)[0]
    if native_failures('C17', scen, obs, seq):
        return obs
    free = with_schedule(scen, [])
    for _ in range(8):
        for o in native.run([free] * 25, watchdog_ms=6000):
            if native_failures('C17', scen, o, seq):
                return o
    # last resort for schedules that need a switch inside one expression (no statement-level lock point there):
    # every thread repeats its script many times, free running, under the watchdog
    def undo(sc):
        out = []
        for st in sc:
            out.append(st)
            if st[0] == 'disconnect':
                out.append(['connect', st[1], st[2], 0])        # keep a writer busy in every iteration
            elif st[0] == 'try_connect':
                out.append(['disconnect', st[1], st[2]])
        return out
    stress = with_schedule(scen, {'stress': 300000})
    stress['steps'][-2][1] = [undo(sc) for sc in scen['steps'][-2][1]]
    for _ in range(3):
        o = native.run([stress], watchdog_ms=12000)[0]
        ti = len(scen['steps']) - 2
        if len(o) > ti and isinstance(o[ti], dict) and o[ti].get('outcome') in ('deadlock', 'panic'):
            return o
    return obs


def evaluate_native_factory(native):
    def ev(f, obs):
        return native_failures('C17', f['scen'], obs, native_sequential(native, f['scen']))
    return ev


def run(prop, tier, seed):
    import random
    import runner
    from runner import Report, Native, parallel, triage
    rep = Report(prop, tier, seed)
    items = items_for(tier)
    random.Random(seed).shuffle(items)
    rep.extra['sample_fallback'] = items[0][1]
    rep.bounds = {'threads x calls': '2 x 1' if tier == 'quick' else '2 x 1 (3 nodes, <=2 initial edges), 2+1 calls, 3 x 1',
                  'nodes': '2 (with queries) and 3', 'initial_edges': '<=1, and 2 for pairs of removals (disconnect of an existing edge / isolate)' if tier == 'quick' else 2,
                  'calls': 'connect, try_connect, disconnect, isolate (+ degree queries and a bfs as the other thread\'s call)',
                  'preemption_bound': 2, 'schedule_points': 'immediately before every RwLock::read / RwLock::write of a node',
                  'symbolic': 'edge values',
                  'outside': 'more than 2 preemptions per schedule, more threads / calls, fairness and starvation, weak-memory effects (all shared state is behind the lock)'}
    native = Native(hooks=True)
    # translator validation of the thread machinery: sequential scenarios and forced single-thread schedules must agree natively
    import scheck
    vs = []
    rnd = random.Random(seed)
    for _, s in rnd.sample(items, min(40, len(items))):
        c = scheck.random_concrete(s, rnd)
        scripts = c['steps'][-2][1]
        # run the threads one after the other (a legal schedule) in both worlds
        c2 = dict(c)
        c2['steps'] = c['steps'][:-3] + [st for sc in scripts for st in sc] + [['dump']]
        c2.pop('preemption_bound', None)
        vs.append(c2)
    scheck.validate(rep, native, vs)
    for r in parallel(items, make_worker(prop), chunksize=8):
        rep.absorb(r)
    triage(rep, native, evaluate_native_factory(native), sig_of, natrun=natrun, max_replays_per_sig=2, known_without_confirmation=True)
    cells = {str(c) for c, _ in items}
    missing = cells - set(rep.cells)
    if missing:
        rep.inconclusive.append({'inconclusive': f'vacuity: no path reached cells {sorted(missing)[:5]}', 'item': ''})
    return rep.finish(
        assumptions=['RwLock model: write excludes everything; a read is refused while a writer holds or is queued (std futex lock is writer-preferring); re-acquisition by the holder never succeeds; a panic releases the thread\'s guards and poisons write-held locks',
                     'context switches matter only at lock acquisitions (all shared mutable state is behind the node locks; Arc counts are atomic)',
                     'schedules with at most 2 preemptions (switches away from a thread that could continue)',
                     'std models of engine A'],
        rule='work item = (initial connect sequence, one script of calls per thread); executor paths = schedules (free choice before every lock acquisition, <=2 preemptions); assertions: no deadlock / panic / poison, C01/C02 invariants at quiescence, final graph and mutating calls\' return values equal those of some sequential order (z3)')
