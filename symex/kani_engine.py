"""Engine B: Kani/CBMC harnesses over the compiled code (crate /verif/kani, path dependency on /repo)."""
import os
import re
import subprocess
import threading
import time

import build

KANI_DIR = os.path.join(build.VERIF, 'kani')


class KaniRun:
    """starts `cargo kani` in the background; collect() parses per-harness verdicts"""

    def __init__(self, pattern):
        self.pattern = pattern
        self.t0 = time.time()
        env = dict(os.environ, CARGO_NET_OFFLINE='true')
        env.pop('RUSTC_BOOTSTRAP', None)
        self.log = os.path.join(build.WORK, f'kani-{pattern}.log')
        os.makedirs(build.WORK, exist_ok=True)
        self.lock = build.Lock('kani')
        self.out = None
        self.thread = threading.Thread(target=self._run, args=(env,), daemon=True)
        self.thread.start()

    def _run(self, env):
        with self.lock:
            cmd = ['cargo', 'kani', '--target-dir', os.path.join(build.WORK, 'kani-target'), '--harness', self.pattern,
                   '-Z', 'concrete-playback', '--concrete-playback=print']
            try:
                r = subprocess.run(cmd, cwd=build.crate_dir('kani'), env=env, stdout=subprocess.PIPE, stderr=subprocess.STDOUT, text=True, timeout=1500)
                self.out = r.stdout
            except subprocess.TimeoutExpired as e:
                self.out = (e.stdout or '') + '\nTIMEOUT'
            open(self.log, 'w').write(self.out)

    def collect(self):
        self.thread.join()
        res = []
        cur = None
        for line in (self.out or '').split('\n'):
            m = re.match(r'Checking harness (\S+?)\.\.\.', line)
            if m:
                cur = {'harness': m.group(1), 'status': None, 'time_s': None, 'failed_checks': [], 'covers_satisfied': 0, 'bytes': None}
                res.append(cur)
                continue
            if cur is None:
                continue
            if 'VERIFICATION:- SUCCESSFUL' in line:
                cur['status'] = 'SUCCESSFUL'
            elif 'VERIFICATION:- FAILED' in line:
                cur['status'] = 'FAILED'
            m = re.match(r'Verification Time: ([\d.]+)s', line)
            if m:
                cur['time_s'] = float(m.group(1))
            if 'Status: SATISFIED' in line:
                cur['covers_satisfied'] += 1
            m = re.match(r'Failed Checks: (.*)', line)
            if m:
                cur['failed_checks'].append(m.group(1).strip())
            m = re.match(r'\s*vec!\[(\d+(?:,\s*\d+)*)\],?', line)
            if m:
                cur.setdefault('playback', []).append([int(x) for x in m.group(1).split(',')])
        return {'harnesses': res, 'wall_s': round(time.time() - self.t0, 1), 'log': self.log,
                'complete': bool(res) and all(h['status'] is not None for h in res) and 'TIMEOUT' not in (self.out or ''),
                'tail': (self.out or '')[-1500:]}


def signed8(b):
    return b - 256 if b > 127 else b


def absorb(rep, native, kr, prop, kind):
    """fold a finished KaniRun into the report; failures are replayed on the native build first"""
    import json
    from runner import load_known, match_known
    res = kr.collect()
    rep.extra.setdefault('coverage', {})['kani'] = {
        'engine': 'Kani 0.68 / CBMC (CaDiCaL) over the compiled code, no std models', 'harnesses': [
            {k: h[k] for k in ('harness', 'status', 'time_s', 'covers_satisfied')} for h in res['harnesses']],
        'wall_s': res['wall_s'], 'instantiation': 'Node<u8, i8, ()> / Edge<u8, (), i8>, kani::any() keys and values', 'unwind': 2}
    if not res['complete']:
        rep.inconclusive.append({'inconclusive': 'Kani run incomplete: ' + res['tail'][-300:], 'item': ''})
        return
    for h in res['harnesses']:
        if h['status'] == 'SUCCESSFUL':
            continue
        fl = h['harness'].split('::')[-2]
        pb = h.get('playback') or []
        vals = [x[0] for x in pb if x]
        confirmed = None
        if kind == 'cmp' and len(vals) >= 4:
            ka, kb, va, vb = vals[0], vals[1], signed8(vals[2]), signed8(vals[3])
            o = native.run([{'flavour': fl, 'nodes': [], 'steps': [['cmp_nodes', ka, kb, va, vb]]}])[0][0]
            c = (va > vb) - (va < vb)
            exp = {'eq': ka == kb, 'ne': ka != kb, 'cmp': c, 'partial_cmp': c, 'lt': va < vb, 'le': va <= vb, 'gt': va > vb, 'ge': va >= vb}
            bad = {k: (o.get(k), v) for k, v in exp.items() if o.get(k) != v}
            if bad:
                confirmed = {'keys': [ka, kb], 'values': [va, vb], 'native_vs_expected': bad}
        elif kind == 'rev' and len(vals) >= 3:
            ka, kb, e1 = vals[0], vals[1], signed8(vals[2])
            o = native.run([{'flavour': fl, 'nodes': [], 'steps': [['edge_reverse', ka, kb, e1]]}])[0][0]
            if o.get('reversed') != [kb, ka, e1] or o.get('original') != [ka, kb, e1]:
                confirmed = {'edge': [ka, kb, e1], 'native': o}
        rep.replays += 1
        sig = {'engine': 'kani', 'harness': h['harness'].split('::')[-1], 'flavour': fl}
        if confirmed is None:
            rep.unconfirmed.append({'sig': sig, 'kani_failed_checks': h['failed_checks'][:3], 'playback': pb})
            continue
        k = match_known(load_known(), prop, sig)
        if k is not None:
            rep.known_hit[k['what']] = rep.known_hit.get(k['what'], 0) + 1
            continue
        import os
        import build
        path = os.path.join(build.WORK, 'replays', f'{prop}-kani-{fl}.json')
        os.makedirs(os.path.dirname(path), exist_ok=True)
        json.dump({'property': prop, 'signature': sig, 'kani_failed_checks': h['failed_checks'], 'counterexample': confirmed,
                   'kani_log': res['log']}, open(path, 'w'), indent=1)
        rep.violations.append(path)
        print(f'  Kani counterexample: {sig} :: {h["failed_checks"][:2]} :: {confirmed}')
