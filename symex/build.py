"""Regenerate the MIR dump and the native replayer from /repo's current working tree."""
import fcntl
import hashlib
import os
import subprocess
import sys
import time

REPO = os.environ.get('GDSL_REPO', '/repo')
VERIF = os.path.dirname(os.path.dirname(os.path.abspath(__file__)))
WORK = os.environ.get('VERIF_WORK') or os.path.join(VERIF, '.work')
ENV = dict(os.environ, CARGO_NET_OFFLINE='true', RUSTC_BOOTSTRAP='1')
HOOK_CFG = '--cfg gdsl_verif'


def tree_hash(extra=''):
    h = hashlib.sha256()
    h.update(extra.encode())
    for root, dirs, files in sorted(os.walk(os.path.join(REPO, 'src'))):
        dirs.sort()
        for fn in sorted(files):
            p = os.path.join(root, fn)
            h.update(p.encode())
            h.update(open(p, 'rb').read())
    for fn in ('Cargo.toml', 'Cargo.lock'):
        p = os.path.join(REPO, fn)
        if os.path.exists(p):
            h.update(open(p, 'rb').read())
    return h.hexdigest()[:16]


class Lock:
    def __init__(self, name):
        os.makedirs(WORK, exist_ok=True)
        self.path = os.path.join(WORK, name + '.lock')

    def __enter__(self):
        self.f = open(self.path, 'w')
        fcntl.flock(self.f, fcntl.LOCK_EX)

    def __exit__(self, *a):
        fcntl.flock(self.f, fcntl.LOCK_UN)
        self.f.close()


def ensure_mir(hooks=False):
    """dump MIR of the gdsl lib (generic bodies) from the current tree; returns (path, seconds, cached)"""
    tag = 'hook' if hooks else 'plain'
    with Lock('mir-' + tag):
        hh = tree_hash(tag)
        out = os.path.join(WORK, f'gdsl-{tag}.mir')
        stamp = out + '.hash'
        if os.path.exists(out) and os.path.exists(stamp) and open(stamp).read() == hh:
            return out, 0.0, True
        t = time.time()
        tdir = os.path.join(WORK, 'mir-target-' + tag)
        # force re-emission even when cargo considers the lib fresh
        fp = os.path.join(tdir, 'debug', '.fingerprint')
        if os.path.isdir(fp):
            import shutil
            for d in os.listdir(fp):
                if d.startswith('gdsl-'):
                    shutil.rmtree(os.path.join(fp, d), ignore_errors=True)
        cmd = ['cargo', 'rustc', '--offline', '--lib', '--', '-Zunpretty=mir', '-C', 'overflow-checks=on',
               '-C', 'debug-assertions=off', '-Awarnings']
        if hooks:
            cmd += ['--cfg', 'gdsl_verif']
        env = dict(ENV, CARGO_TARGET_DIR=tdir)
        r = subprocess.run(cmd, cwd=REPO, env=env, stdout=subprocess.PIPE, stderr=subprocess.PIPE, text=True)
        if r.returncode != 0 or 'fn ' not in r.stdout:
            sys.stderr.write(r.stderr[-4000:])
            raise SystemExit('INCONCLUSIVE: MIR dump of /repo failed (does the tree compile?)')
        with open(out, 'w') as f:
            f.write(r.stdout)
        with open(stamp, 'w') as f:
            f.write(hh)
        return out, time.time() - t, False


def crate_dir(name):
    """the harness crate `name` of /verif; when GDSL_REPO points at another tree (tools/automut.py runs mutants of a
    scratch copy without touching /repo), a copy whose path dependency points there"""
    src = os.path.join(VERIF, name)
    if os.path.realpath(REPO) == '/repo':
        return src
    import shutil
    dst = os.path.join(WORK, name + '-src')
    os.makedirs(os.path.join(dst, 'src'), exist_ok=True)
    for fn in os.listdir(os.path.join(src, 'src')):
        a, b = os.path.join(src, 'src', fn), os.path.join(dst, 'src', fn)
        if not os.path.exists(b) or open(a, 'rb').read() != open(b, 'rb').read():
            shutil.copy(a, b)
    if os.path.exists(os.path.join(src, 'Cargo.lock')):
        shutil.copy(os.path.join(src, 'Cargo.lock'), os.path.join(dst, 'Cargo.lock'))
    toml = open(os.path.join(src, 'Cargo.toml')).read().replace('path = "/repo"', 'path = "%s"' % REPO)
    if not os.path.exists(os.path.join(dst, 'Cargo.toml')) or open(os.path.join(dst, 'Cargo.toml')).read() != toml:
        open(os.path.join(dst, 'Cargo.toml'), 'w').write(toml)
    return dst


def ensure_replayer(hooks=False, coarse=False):
    """coarse: the variant whose key type hashes every key alike (--cfg coarse_hash), see replay/src/main.rs"""
    tag = ('hook' if hooks else 'plain') + ('-coarse' if coarse else '')
    with Lock('replay-' + tag):
        tdir = os.path.join(WORK, 'replay-target-' + tag)
        env = dict(ENV, CARGO_TARGET_DIR=tdir)
        if hooks:
            env['RUSTFLAGS'] = (env.get('RUSTFLAGS', '') + ' --cfg gdsl_verif').strip()
        if coarse:
            env['RUSTFLAGS'] = (env.get('RUSTFLAGS', '') + ' --cfg coarse_hash').strip()
        env['RUSTFLAGS'] = (env.get('RUSTFLAGS', '') + ' -Awarnings').strip()
        t = time.time()
        r = subprocess.run(['cargo', 'build', '--offline', '--quiet'], cwd=crate_dir('replay'), env=env,
                           stdout=subprocess.PIPE, stderr=subprocess.PIPE, text=True)
        if r.returncode != 0:
            sys.stderr.write(r.stderr[-4000:])
            raise SystemExit('INCONCLUSIVE: native replayer does not build against the current tree')
        return os.path.join(tdir, 'debug', 'gdsl-replay'), time.time() - t


if __name__ == '__main__':
    print(ensure_mir())
    print(ensure_replayer())
