"""Check infrastructure: parallel exploration, native replay, known findings, evidence."""
import json
import multiprocessing as mp
import os
import random
import subprocess
import sys
import time
import traceback

import build

VERIF = build.VERIF
WORK = build.WORK
NPROC = int(os.environ.get('VERIF_JOBS', '16'))


# ------------------------------------------------------------------ context shared with forked workers
class G:
    ix = None           # FnIndex, loaded before the pool forks
    prop = None
    worker = None       # callable(item) -> result dict
    ex = None


def get_exec():
    if G.ex is None:
        from engine import Exec
        import models
        G.ex = Exec(G.ix, models.P, models.PATTERN_PRIMS, models.DROP_HOOKS)
    return G.ex


def _run_item(item):
    t = time.time()
    try:
        r = G.worker(item)
    except Exception as e:      # engine limitation or bug: never a pass
        r = {'inconclusive': f'{type(e).__name__}: {e}', 'trace': traceback.format_exc()[-1500:], 'item': _brief(item)}
    r['wall'] = time.time() - t
    return r


def _brief(item):
    try:
        return json.dumps(item, default=str)[:600]
    except Exception:
        return str(item)[:600]


def parallel(items, worker, chunksize=4):
    """run worker over items in forked processes; returns list of result dicts"""
    G.worker = worker
    if isinstance(items, (list, tuple)):
        if NPROC <= 1 or len(items) < 4:
            return [_run_item(it) for it in items]
    ctx = mp.get_context('fork')
    with ctx.Pool(NPROC) as pool:
        # generators are consumed lazily (large thorough families are never materialised in the parent)
        return list(pool.imap_unordered(_run_item, items, chunksize=chunksize))


def parallel_stream(items, worker, absorb, chunksize=64):
    """like parallel(), but results are folded into `absorb` as they arrive and not kept"""
    G.worker = worker
    ctx = mp.get_context('fork')
    with ctx.Pool(NPROC) as pool:
        for r in pool.imap_unordered(_run_item, items, chunksize=chunksize):
            absorb(r)


# ------------------------------------------------------------------ native replay
class Native:
    def __init__(self, hooks=False, coarse=False):
        self.hooks = hooks
        self.bin, self.build_s = build.ensure_replayer(hooks, coarse)
        self.runs = 0
        self._coarse = None

    def coarse(self):
        """the same replayer built with a key type whose Hash is as coarse as the contract allows (all keys collide);
        built on first use: only needed to confirm counterexamples that rest on a hash collision of different keys"""
        if self._coarse is None:
            self._coarse = Native(self.hooks, coarse=True)
        return self._coarse

    def run(self, scenarios, watchdog_ms=3000):
        """-> list of observation lists (one per scenario)"""
        out = []
        todo = list(scenarios)
        while todo:
            inp = '\n'.join(json.dumps(s) for s in todo) + '\n'
            env = dict(os.environ, REPLAY_WATCHDOG_MS=str(watchdog_ms))
            r = subprocess.run([self.bin], input=inp, stdout=subprocess.PIPE, stderr=subprocess.PIPE, text=True, env=env)
            lines = [l for l in r.stdout.split('\n') if l.strip()]
            got = [json.loads(l) for l in lines]
            self.runs += len(got)
            out.extend(got)
            todo = todo[len(got):]
            if todo and (len(got) == 0 or r.returncode not in (0, 3)):
                # the process died inside the next scenario (stack overflow, abort, allocation failure): that is an
                # abnormal end of that scenario, not a failure of the harness; go on with the ones after it
                if r.returncode in (0, 3) and len(got) == 0:
                    raise RuntimeError('replayer produced no output: ' + r.stderr[-500:])
                tail = ' '.join(r.stderr.strip().split('\n')[-2:])[-300:]
                out.append([{'panic': f'native process aborted (status {r.returncode}): {tail}'}])
                self.runs += 1
                todo = todo[1:]
        return out


def abnormal_kind(o):
    if isinstance(o, dict) and len(o) == 1:
        k = next(iter(o))
        if k in ('panic', 'deadlock', 'hang'):
            return 'panic' if k == 'panic' else 'stuck'
    return None


def obs_equal(a, b):
    """structural equality of two observation lists; abnormal outcomes compare by kind"""
    if len(a) != len(b):
        return False
    for x, y in zip(a, b):
        kx, ky = abnormal_kind(x), abnormal_kind(y)
        if kx or ky:
            if kx != ky:
                return False
            continue
        if json.dumps(x, sort_keys=True) != json.dumps(y, sort_keys=True):
            return False
    return True


# ------------------------------------------------------------------ known findings
def load_known():
    p = os.path.join(VERIF, 'known_findings.json')
    if not os.path.exists(p):
        return []
    return json.load(open(p))['findings']


def match_known(known, prop, sig):
    for k in known:
        if k.get('status') != 'known' or k['property'] != prop:
            continue
        ok = True
        for key, want in k['match'].items():
            have = sig.get(key)
            if isinstance(want, list):
                if have not in want:
                    ok = False
            elif have != want:
                ok = False
        if ok:
            return k
    return None


# ------------------------------------------------------------------ result assembly
class Report:
    def __init__(self, prop, tier, seed):
        self.prop, self.tier, self.seed = prop, tier, seed
        self.t0 = time.time()
        self.paths = 0
        self.solver_calls = 0
        self.asserts = 0
        self.solver_s = 0.0
        self.cross = 0
        self.steps = 0
        self.infeasible = 0
        self.items = 0
        self.cells = {}
        self.findings = []          # dicts with sig, msg, scen (concrete), kind
        self.inconclusive = []
        self.cov_fns = set()
        self.cov_prims = set()
        self.samples = []
        self.validated = 0
        self.validation_mismatch = []
        self.replays = 0
        self.notes = []
        self.bounds = {}
        self.violations = []
        self.known_hit = {}
        self.unconfirmed = []
        self.extra = {}

    def absorb(self, r):
        self.items += 1
        if 'inconclusive' in r:
            self.inconclusive.append(r)
            return
        self.paths += r.get('paths', 0)
        self.solver_calls += r.get('solver_calls', 0)
        self.asserts += r.get('asserts', 0)
        self.solver_s += r.get('solver_s', 0.0)
        self.cross += r.get('cross', 0)
        self.steps += r.get('steps', 0)
        self.infeasible += r.get('infeasible', 0)
        for c in r.get('cells', []):
            self.cells[c] = self.cells.get(c, 0) + 1
        self.findings.extend(r.get('findings', []))
        self.cov_fns.update(r.get('cov_fns', ()))
        self.cov_prims.update(r.get('cov_prims', ()))
        if r.get('sample') is not None and len(self.samples) < 6 and random.random() < 0.05:
            self.samples.append(r['sample'])

    def finish(self, level='model_checking', assumptions=(), rule=''):
        prop = self.prop
        wall = time.time() - self.t0
        status = 0
        for k, n in sorted(self.known_hit.items()):
            print(f'KNOWN-FINDING: property={prop} {k}  [{n} counterexample(s) this run]')
        for v in self.violations:
            print(f'VIOLATION property={prop} replay={v}')
            status = 1
        if self.inconclusive or self.unconfirmed or self.validation_mismatch:
            for r in self.inconclusive[:5]:
                print(f'INCONCLUSIVE property={prop}: {r["inconclusive"]}  item={r.get("item", "")[:300]}')
                if os.environ.get('VERIF_DEBUG'):
                    print(r.get('trace', ''))
            for u in self.unconfirmed[:5]:
                print(f'UNCONFIRMED property={prop}: solver counterexample did not reproduce natively: {u}')
            for u in self.validation_mismatch[:5]:
                print(f'MODEL-MISMATCH property={prop}: executor and native build disagree on {u}')
            if status == 0:
                status = 2
        if not self.samples and self.extra.get('sample_fallback') is not None:
            self.samples.append(self.extra['sample_fallback'])
        cov = {
            'states': self.paths,
            'transitions': self.asserts + self.solver_calls,
            'assertions_discharged': self.asserts,
            'solver_queries': self.solver_calls,
            'solver_time_cpu_s': round(self.solver_s, 2),
            'queries_cross_checked_with_cvc5': self.cross,
            'traces_validated_against_impl': self.validated,
            'samples': self.samples[:6] or ['(none)'],
            'rule': rule,
            'work_items': self.items,
            'mir_statements_executed': self.steps,
            'infeasible_paths': self.infeasible,
            'cells_reached': {str(k): v for k, v in sorted(self.cells.items(), key=lambda kv: str(kv[0]))},
            'functions_encoded': sorted(self.cov_fns),
            'std_models_used': sorted(self.cov_prims),
            'bounds': self.bounds,
            'native_replays': self.replays,
            'counterexamples': len(self.findings),
            'known_findings_matched': self.known_hit,
            'inconclusive_items': len(self.inconclusive),
            'notes': self.notes,
        }
        cov.update(self.extra.get('coverage', {}))
        ev = {
            'property_id': prop,
            'tier': self.tier,
            'seed': self.seed,
            'level': level,
            'coverage': cov,
            'assumptions': list(assumptions),
            'wall_s': round(wall, 2),
            'violations': len(self.violations),
        }
        # seeded-change runs (tools/try_mutant.sh, tools/run_seeded.sh) write elsewhere so that evidence/ always describes /repo itself
        evdir = os.environ.get('VERIF_EVIDENCE_DIR') or os.path.join(VERIF, 'evidence')
        os.makedirs(evdir, exist_ok=True)
        with open(os.path.join(evdir, f'{prop}.json'), 'w') as f:
            json.dump(ev, f, indent=1, default=str)
        print(f'{prop} [{self.tier}] paths={self.paths} assertions={self.asserts} solver_queries={self.solver_calls} items={self.items} '
              f'validated={self.validated} replays={self.replays} findings={len(self.findings)} '
              f'known={sum(self.known_hit.values())} violations={len(self.violations)} '
              f'inconclusive={len(self.inconclusive)} wall={wall:.1f}s -> exit {status}')
        return status


def triage(rep, native, evaluate_native, sig_of, max_replays_per_sig=2, natrun=None, known_without_confirmation=False, escalate=None):
    """group findings by signature, match against the known-findings file, replay natively.
    evaluate_native(finding, native_obs) -> list of failing messages (empty = not reproduced)."""
    known = load_known()
    groups = {}
    for f in rep.findings:
        sig = sig_of(f)
        f['sig'] = sig
        groups.setdefault(json.dumps(sig, sort_keys=True), []).append(f)
    os.makedirs(os.path.join(WORK, 'replays'), exist_ok=True)
    n = 0
    for key, fs in sorted(groups.items()):
        sig = fs[0]['sig']
        k = match_known(known, rep.prop, sig)
        confirmed = None
        for f in fs[:max_replays_per_sig]:
            obs = natrun(native, f['scen']) if natrun else native.run([f['scen']])[0]
            rep.replays += 1
            bad = evaluate_native(f, obs)
            if bad:
                confirmed = (f, bad, obs)
                break
        if confirmed is None and escalate is not None:
            # the solver's counterexample rests on a freedom the std contract leaves open (e.g. the order of equal
            # elements after an unstable sort) that the native build only exercises on larger inputs: try scaled-up
            # variants of the same scenario natively; what is reported is then the variant that does reproduce
            for alt in escalate(fs[0]) or ():
                f2 = dict(fs[0], scen=alt, msg=fs[0]['msg'] + '  [reproduced natively on a scaled-up variant of the solver\'s scenario]')
                obs = natrun(native, alt) if natrun else native.run([alt])[0]
                rep.replays += 1
                bad = evaluate_native(f2, obs)
                if bad:
                    confirmed = (f2, bad, obs)
                    break
        if confirmed is None and getattr(rep, 'hash_collisions_possible', False):
            # the executor treats the hash of a key as an uninterpreted function (different keys may collide); the
            # native key type `usize` never collides: retry with the coarse-hash build of the replayer
            f = fs[0]
            try:
                cn = native.coarse()
                obs = natrun(cn, f['scen']) if natrun else cn.run([f['scen']])[0]
                rep.replays += 1
                bad = evaluate_native(f, obs)
                if bad:
                    confirmed = (dict(f, msg=f['msg'] + '  [reproduced natively with a key type whose Hash maps all keys to one value]'), bad, obs)
            except Exception as e:       # noqa
                rep.notes.append({'coarse_hash_replayer': repr(e)[:300]})
        if confirmed is None:
            if k is not None and known_without_confirmation:
                # timing-dependent replays (threads): a listed finding that did not reproduce in this run's attempts
                # stays a listed finding; it is recorded, and nothing unlisted is ever accepted without reproduction
                rep.known_hit[k['what']] = rep.known_hit.get(k['what'], 0) + len(fs)
                rep.notes.append({'known_finding_not_reconfirmed_natively_this_run': sig})
                continue
            rep.unconfirmed.append({'sig': sig, 'msg': fs[0]['msg'], 'scen': fs[0]['scen']})
            continue
        if k is not None:
            rep.known_hit[k['what']] = rep.known_hit.get(k['what'], 0) + len(fs)
            continue
        f, bad, obs = confirmed
        n += 1
        path = os.path.join(WORK, 'replays', f'{rep.prop}-{n}.json')
        with open(path, 'w') as fh:
            json.dump({'property': rep.prop, 'signature': sig, 'message': f['msg'], 'native_failures': bad[:5],
                       'scenario': f['scen'], 'native_observations': obs, 'count': len(fs)}, fh, indent=1)
        rep.violations.append(path)
        print(f'  counterexample ({len(fs)}x): {sig} :: {f["msg"]}')
