"""C14: construction macros build exactly the graph they denote.

A generated probe crate contains one function per (macro, signature form, shape); its macro arguments are
calls of opaque functions sym_key(i) / sym_val(j), so wiring, forward references, self-loops, repeated
edges and unlisted keys are all decided by the solver.  The expansion's MIR is dumped with the probe
crate and executed together with gdsl's MIR.
"""
import itertools
import json
import os
import random
import re
import subprocess
import time

import z3

import build
import runner
from logic import AND, OR, EQ, MULTISET_EQ
from runner import Report, parallel, load_known, match_known

MACROS = ('digraph', 'sync_digraph', 'ungraph', 'sync_ungraph')
DIRECTED = ('digraph', 'sync_digraph')
FORMS = (1, 2, 3, 4)          # 1: (K) ; 2: (K, N) ; 3: (K) => [E] ; 4: (K, N) => [E]


def shapes(max_rows, max_edges):
    """a shape is a tuple per row: None (no edge list at all) or the number of listed edges"""
    opts = [None] + list(range(max_edges + 1))
    out = []
    for r in range(max_rows + 1):
        out += list(itertools.product(opts, repeat=r))
    return out


def fn_name(macro, form, shape):
    return f'p_{macro}_f{form}_' + ('_'.join('n' if s is None else str(s) for s in shape) or 'empty')


def invocation(macro, form, shape, key, val):
    """macro invocation text; key(i) / val(j) give the argument expressions"""
    hasn, hase = form in (2, 4), form in (3, 4)
    head = '(usize, i64)' if hasn else '(usize)'
    if hase:
        head += ' => [i64]'
    rows = []
    e = 0
    for i, s in enumerate(shape):
        node = f'({key(i)}, {val(i)})' if hasn else f'({key(i)})'
        if s is None:
            rows.append(f'{node} =>')
        else:
            items = []
            for _ in range(s):
                items.append(f'({key(10 + e)}, {val(100 + e)})' if hase else f'{key(10 + e)}')
                e += 1
            rows.append(f'{node} => [{", ".join(items)}]')
    return f'{macro}![ {head} ' + ' '.join(rows) + ' ]'


def graph_type(macro, form):
    n = 'i64' if form in (2, 4) else '()'
    e = 'i64' if form in (3, 4) else '()'
    # on this tree sync_ungraph! expands to the plain ungraph types (recorded as an observation)
    return f'<usize, {n}, {e}>'


def probe_source(specs):
    out = ['#![allow(unused, clippy::all)]', 'use gdsl::*;',
           'extern "C" { fn sym_key(i: usize) -> usize; fn sym_val(i: usize) -> i64; }',
           '#[inline(never)] fn k(i: usize) -> usize { unsafe { sym_key(i) } }',
           '#[inline(never)] fn v(i: usize) -> i64 { unsafe { sym_val(i) } }']
    for (macro, form, shape) in specs:
        inv = invocation(macro, form, shape, lambda i: f'k({i})', lambda j: f'v({j})')
        out.append(f'pub fn {fn_name(macro, form, shape)}() -> impl Sized {{ {inv} }}')
    # helper macros
    for m in MACROS:
        out.append(f'pub fn p_{m}_connect1() -> impl Sized {{ let a = {m}_node!(k(0)); let b = {m}_node!(k(1)); {m}_connect!(&a => &b); (a, b) }}')
        out.append(f'pub fn p_{m}_connect2() -> impl Sized {{ let a = {m}_node!(k(0), v(0)); let b = {m}_node!(k(1), v(1)); {m}_connect!(&a => &b, v(100)); (a, b) }}')
        out.append(f'pub fn p_{m}_empty0() -> impl Sized {{ {m}![] }}')
    return '\n'.join(out) + '\n'


def dump_probe(specs):
    d = os.path.join(build.WORK, 'c14-probe')
    os.makedirs(os.path.join(d, 'src'), exist_ok=True)
    open(os.path.join(d, 'src', 'lib.rs'), 'w').write(probe_source(specs))
    open(os.path.join(d, 'Cargo.toml'), 'w').write(
        '[package]\nname = "c14probe"\nversion = "0.1.0"\nedition = "2021"\n\n[workspace]\n\n[dependencies]\ngdsl = { path = "%s" }\n' % build.REPO)
    lock = os.path.join(build.REPO, 'Cargo.lock')
    if os.path.exists(lock) and not os.path.exists(os.path.join(d, 'Cargo.lock')):
        open(os.path.join(d, 'Cargo.lock'), 'w').write(open(lock).read())
    env = dict(build.ENV, CARGO_TARGET_DIR=os.path.join(build.WORK, 'c14-target'))
    r = subprocess.run(['cargo', 'rustc', '--offline', '--lib', '--', '-Zunpretty=mir', '-C', 'overflow-checks=on',
                        '-C', 'debug-assertions=off', '-Awarnings'], cwd=d, env=env, stdout=subprocess.PIPE, stderr=subprocess.PIPE, text=True)
    if r.returncode != 0 or 'fn ' not in r.stdout:
        return None, r.stderr[-3000:]
    return r.stdout.replace('gdsl::', ''), None


# ------------------------------------------------------------------ symbolic run of one probe function
def keysym(ex, i, binding):
    if binding is not None:
        return binding['k'][i]
    return ex.sym_int(f'k{i}')


def install_syms(ex, binding):
    def sk(ex_, a):
        return keysym(ex, a[0], binding)

    def sv(ex_, a):
        if binding is not None:
            return binding['v'][a[0]]
        return ex.sym_int(f'v{a[0]}')
    ex.prims['sym_key'] = sk
    ex.prims['sym_val'] = sv
    ex.prims['c14probe::k'] = None
    ex._primcache.pop('sym_key', None)
    ex._primcache.pop('sym_val', None)


def observe(ex, macro, form, shape, binding=None):
    """run the probe fn; -> observation dict with (possibly symbolic) keys/values and row indices"""
    from engine import Cell, Ref, RustPanic, Deadlock, Budget, Agg
    import models
    install_syms(ex, binding)
    ex.hash_order = 'insertion'
    nrows = len(shape)
    rowkeys = [keysym(ex, i, binding) for i in range(nrows)]
    if binding is None:
        for i in range(nrows):
            for j in range(i):
                ex.assume(rowkeys[i] != rowkeys[j])
    flav = macro
    ex.panic_tokens = None
    try:
        g = ex.call(fn_name(macro, form, shape), [])
    except RustPanic as p:
        return {'panic': models.render(ex.panic_tokens) if ex.panic_tokens is not None else str(p),
                'panic_values': [t[1] for t in (ex.panic_tokens or []) if not isinstance(t, str)]}
    except Deadlock as d:
        return {'deadlock': str(d)}
    except Budget as b:
        return {'hang': str(b)}
    gkind = g.kind
    gfl = gkind.split('::')[0]
    directed = gfl in DIRECTED
    gc = Cell(g)
    GRAPH = f'{gfl}::Graph'
    NODE = f'{gfl}::node::Node'
    n = ex.call(f'{GRAPH}::<K, N, E>::len', [Ref(gc)])
    rows = []
    boxes = []
    handles = []
    for i in range(nrows):
        r = ex.call(f'{GRAPH}::<K, N, E>::get', [Ref(gc), Ref(Cell(rowkeys[i]))])
        if r.variant == 0:
            rows.append({'found': False})
            boxes.append(None)
            handles.append(None)
        else:
            node = r.f[0]
            boxes.append(node.f[0].box)
            handles.append(Cell(node))
            rows.append({'found': True})
    for i in range(nrows):
        if handles[i] is None:
            continue
        nr = Ref(handles[i])
        val = ex.deref(ex.call(f'{NODE}::<K, N, E>::value', [nr]))
        rows[i]['value'] = None if isinstance(val, Agg) else val
        meth, ity = ('iter_out', 'IterOut') if directed else ('iter', 'NodeIterator')
        it = Cell(ex.call(f'{NODE}::<K, N, E>::{meth}', [nr]))
        edges = []
        while True:
            o = ex.call(f"<{gfl}::node::{ity}<'_, K, N, E> as Iterator>::next", [Ref(it)])
            if o.variant == 0:
                break
            e = o.f[0]
            tb = e.f[1].f[0].box
            tgt = boxes.index(tb) if tb in boxes else None
            ev = e.f[2]
            edges.append([tgt, None if isinstance(ev, Agg) else ev])
            if len(edges) > 40:
                raise Budget('edge iterator does not end')
        rows[i]['edges'] = edges
    return {'len': n, 'rows': rows, 'graph_type': gkind}


def expected(ex_branch, macro, form, shape, key, val):
    """denotation of the invocation; ex_branch(cond) decides symbolic key equalities.
    -> ('panic', [unlisted target key terms]) or ('graph', rows)"""
    hasn, hase = form in (2, 4), form in (3, 4)
    nrows = len(shape)
    tg = []
    e = 0
    unlisted = []
    per_row = []
    for i, s in enumerate(shape):
        mine = []
        for _ in range(s or 0):
            t = key(10 + e)
            row = None
            for r in range(nrows):
                c = (t == key(r))
                if c is True or (c is not False and ex_branch(c)):
                    row = r
                    break
            if row is None:
                unlisted.append(t)
            mine.append([row, val(100 + e) if hase else None])
            e += 1
        per_row.append(mine)
    if unlisted:
        return 'panic', unlisted
    rows = []
    for i in range(nrows):
        rows.append({'value': val(i) if hasn else None, 'own': per_row[i],
                     'incoming': [[j, ev] for j in range(nrows) for (t, ev) in per_row[j] if t == i]})
    return 'graph', rows


def conditions(macro, form, shape, obs, exp):
    kind, data = exp
    directed = macro in DIRECTED
    name = f'{macro}! form {form} shape {shape}'
    cs = []
    if kind == 'panic':
        if 'panic' not in obs:
            return [(False, f'{name}: an edge names an unlisted key but the macro returned a graph ({obs.get("len")} nodes) instead of panicking', 'no-panic')]
        pv = obs.get('panic_values')
        if pv is not None:
            cs.append((OR(EQ(x, t) for x in pv for t in data), f'{name}: panic message {obs["panic"]!r} does not name an unlisted key', 'panic-message'))
        else:
            cs.append((any(str(t) in obs['panic'] for t in data), f'{name}: panic message {obs["panic"]!r} does not name an unlisted key {data}', 'panic-message'))
        return cs
    if 'panic' in obs or 'deadlock' in obs or 'hang' in obs:
        return [(False, f'{name}: well-formed invocation ended abnormally: {obs}', 'abnormal')]
    cs.append((obs['len'] == len(data), f'{name}: graph has {obs["len"]} nodes, {len(data)} were listed', 'node-count'))
    for i, (o, x) in enumerate(zip(obs['rows'], data)):
        if not o['found']:
            cs.append((False, f'{name}: listed node of row {i} is missing', 'node-missing'))
            continue
        cs.append((EQ(o['value'], x['value']), f'{name}: node of row {i} has value {o["value"]}, listed {x["value"]}', 'node-value'))
        got = [list(e) for e in o['edges']]
        if directed:
            cs.append((EQ(got, [list(e) for e in x['own']]), f'{name}: row {i} lists edges {show(x["own"])}, the node has {show(got)}', 'edges'))
        else:
            allexp = [list(e) for e in x['own']] + [list(e) for e in x['incoming']]
            ok_struct = sorted(str(e[0]) for e in got) == sorted(str(e[0]) for e in allexp)
            cs.append((ok_struct and MULTISET_EQ(got, allexp), f'{name}: node of row {i} should be incident to {show(allexp)}, has {show(got)}', 'edges'))
            # own-row edges appear in listed order (as a subsequence of iter())
            cs.append((subseq(got, [list(e) for e in x['own']]), f'{name}: edges of row {i} {show(x["own"])} do not appear in listed order in {show(got)}', 'edge-order'))
            # ... and so do the edges that other rows list towards this node (textual order of the invocation)
            cs.append((subseq(got, [list(e) for e in x['incoming']]), f'{name}: edges listed towards the node of row {i} {show(x["incoming"])} do not appear in listed order in {show(got)}', 'edge-order'))
    return cs


def subseq(hay, needle):
    """condition: needle is a subsequence of hay (targets concrete, values possibly symbolic)"""
    def rec(i, j):
        if j == len(needle):
            return True
        if i == len(hay):
            return False
        alts = []
        if hay[i][0] == needle[j][0]:
            alts.append(AND([EQ(hay[i][1], needle[j][1]), rec(i + 1, j + 1)]))
        alts.append(rec(i + 1, j))
        return OR(alts)
    return rec(0, 0)


def show(es):
    return '[' + ', '.join(f'->{e[0]}' for e in es) + ']'


# ------------------------------------------------------------------ native side
def native_source(cases):
    """cases: [(macro, form, shape, binding)] -> a main.rs printing one JSON line per case"""
    out = ['#![allow(unused, clippy::all)]', 'use gdsl::*;', 'use std::panic::{catch_unwind, AssertUnwindSafe};',
           'fn show_unit(_: &()) -> String { "null".to_string() }', 'fn show_i64(x: &i64) -> String { x.to_string() }']
    calls = []
    for ci, (macro, form, shape, b) in enumerate(cases):
        inv = invocation(macro, form, shape, lambda i: f'{b["k"][i]}usize', lambda j: f'({b["v"][j]}i64)')
        hasn, hase = form in (2, 4), form in (3, 4)
        nrows = len(shape)
        keys = ', '.join(f'{b["k"][i]}usize' for i in range(nrows))
        it = 'iter_out' if macro in DIRECTED else 'iter'
        out.append(f'''fn case{ci}() -> String {{
    let g = {inv};
    let keys: Vec<usize> = vec![{keys}];
    let mut rows = vec![];
    for k in &keys {{
        match g.get(k) {{
            None => rows.push("{{\\"found\\": false}}".to_string()),
            Some(n) => {{
                let es: Vec<String> = n.{it}().map(|e| format!("[{{}}, {{}}]", keys.iter().position(|x| x == e.1.key()).map(|p| p.to_string()).unwrap_or("null".to_string()), {'show_i64' if hase else 'show_unit'}(&e.2))).collect();
                rows.push(format!("{{{{\\"found\\": true, \\"value\\": {{}}, \\"edges\\": [{{}}]}}}}", {'show_i64' if hasn else 'show_unit'}(n.value()), es.join(", ")));
            }}
        }}
    }}
    format!("{{{{\\"len\\": {{}}, \\"rows\\": [{{}}]}}}}", g.len(), rows.join(", "))
}}''')
        calls.append(f'''    match catch_unwind(AssertUnwindSafe(|| case{ci}())) {{
        Ok(s) => println!("{{}}", s),
        Err(e) => {{ let m = if let Some(s) = e.downcast_ref::<String>() {{ s.clone() }} else if let Some(s) = e.downcast_ref::<&str>() {{ s.to_string() }} else {{ "panic".to_string() }}; println!("{{{{\\"panic\\": {{:?}}}}}}", m); }}
    }}''')
    out.append('fn main() {\n    std::panic::set_hook(Box::new(|_| {}));\n' + '\n'.join(calls) + '\n}')
    return '\n'.join(out) + '\n'


def run_native(cases):
    d = os.path.join(build.WORK, 'c14-native')
    os.makedirs(os.path.join(d, 'src'), exist_ok=True)
    open(os.path.join(d, 'src', 'main.rs'), 'w').write(native_source(cases))
    open(os.path.join(d, 'Cargo.toml'), 'w').write(
        '[package]\nname = "c14native"\nversion = "0.1.0"\nedition = "2021"\n\n[workspace]\n\n[dependencies]\ngdsl = { path = "%s" }\n' % build.REPO)
    lock = os.path.join(build.REPO, 'Cargo.lock')
    if os.path.exists(lock) and not os.path.exists(os.path.join(d, 'Cargo.lock')):
        open(os.path.join(d, 'Cargo.lock'), 'w').write(open(lock).read())
    env = dict(build.ENV, CARGO_TARGET_DIR=os.path.join(build.WORK, 'c14-target'), RUSTFLAGS='-Awarnings')
    r = subprocess.run(['cargo', 'run', '--offline', '--quiet'], cwd=d, env=env, stdout=subprocess.PIPE, stderr=subprocess.PIPE, text=True)
    if r.returncode != 0:
        return None, r.stderr[-3000:]
    return [json.loads(l) for l in r.stdout.split('\n') if l.strip()], None


def binding_from_model(model, shape):
    b = {'k': {}, 'v': {}}
    ne = sum(s or 0 for s in shape)
    for i in list(range(len(shape))) + [10 + j for j in range(ne)]:
        b['k'][i] = model.eval(z3.Int(f'k{i}'), model_completion=True).as_long()
    for i in list(range(len(shape))) + [100 + j for j in range(ne)]:
        b['v'][i] = model.eval(z3.Int(f'v{i}'), model_completion=True).as_long()
    # keys are usize
    for i, x in b['k'].items():
        if x < 0:
            b['k'][i] = abs(x) + 1000
    return b


def random_binding(rnd, shape):
    nrows = len(shape)
    ne = sum(s or 0 for s in shape)
    rk = rnd.sample(range(6), nrows)
    b = {'k': {i: rk[i] for i in range(nrows)}, 'v': {}}
    for j in range(ne):
        b['k'][10 + j] = rnd.choice(rk + [rnd.randrange(7)]) if rk else rnd.randrange(7)
    for i in list(range(nrows)) + [100 + j for j in range(ne)]:
        b['v'][i] = rnd.randint(-3, 3)
    return b


def concrete_conditions(macro, form, shape, obs, b):
    exp = expected(lambda c: bool(c), macro, form, shape, lambda i: b['k'][i], lambda j: b['v'][j])
    return conditions(macro, form, shape, obs, exp)


def truthy(c):
    if isinstance(c, bool):
        return c
    return z3.is_true(z3.simplify(c))


# ------------------------------------------------------------------ check driver
def worker(item):
    from engine import explore
    macro, form, shape = item
    ex = runner.get_exec()

    def harness(ex):
        obs = observe(ex, macro, form, shape)
        exp = expected(ex.branch, macro, form, shape, lambda i: ex.sym_int(f'k{i}'), lambda j: ex.sym_int(f'v{j}'))
        cs = conditions(macro, form, shape, obs, exp)
        out = []
        for i, m in ex.prove_all(cs)[:2]:
            out.append({'item': [macro, form, list(shape)], 'binding': binding_from_model(m, shape), 'msg': cs[i][1], 'kind': cs[i][2]})
        if 'graph_type' in obs:
            out.append({'note_graph_type': [macro, obs['graph_type']]})
        return out
    st = explore(ex, harness)
    finds = [f for f in st['findings'] if 'msg' in f]
    notes = [f['note_graph_type'] for f in st['findings'] if 'note_graph_type' in f]
    return {'paths': st['paths'], 'solver_calls': st['solver_calls'], 'asserts': st['asserts'], 'solver_s': st['solver_s'], 'cross': st['cross'], 'steps': st['steps'],
            'infeasible': st['infeasible'], 'findings': finds, 'cells': [str((macro, form))], 'notes': notes[:1],
            'cov_fns': list(ex.cov_fns), 'cov_prims': list(ex.cov_prims),
            'sample': invocation(macro, form, shape, lambda i: f'k{i}', lambda j: f'v{j}')}


def helper_worker(item):
    """*_node! and *_connect! helpers"""
    from engine import explore, Cell, Ref
    macro, which = item
    ex = runner.get_exec()

    def harness(ex):
        install_syms(ex, None)
        r = ex.call(f'p_{macro}_{which}', [])
        k0, v0 = ex.sym_int('k0'), ex.sym_int('v0')
        cs = []
        fl = None

        def node_kv(n):
            c = Cell(n)
            NODE = n.kind
            return ex.deref(ex.call(f'{NODE}::<K, N, E>::key', [Ref(c)])), ex.deref(ex.call(f'{NODE}::<K, N, E>::value', [Ref(c)]))
        if which.startswith('connect'):
            a, b = r.f
            fl = a.kind.split('::')[0]
            directed = fl in DIRECTED
            ka, va = node_kv(a)
            kb, vb = node_kv(b)
            cs.append((AND([EQ(ka, k0), EQ(kb, ex.sym_int('k1'))]), f'{macro}_node!: key', 'helper'))
            if which == 'connect2':
                cs.append((AND([EQ(va, v0), EQ(vb, ex.sym_int('v1'))]), f'{macro}_node!: value', 'helper'))
            meth, ity = ('iter_out', 'IterOut') if directed else ('iter', 'NodeIterator')
            it = Cell(ex.call(f'{a.kind}::<K, N, E>::{meth}', [Ref(Cell(a))]))
            es = []
            while True:
                o = ex.call(f"<{fl}::node::{ity}<'_, K, N, E> as Iterator>::next", [Ref(it)])
                if o.variant == 0:
                    break
                es.append(o.f[0])
            ok = len(es) == 1 and es[0].f[1].f[0].box is b.f[0].box
            cs.append((ok, f'{macro}_connect!: source should list exactly one edge to the target', 'helper'))
            if ok and which == 'connect2':
                cs.append((EQ(es[0].f[2], ex.sym_int('v100')), f'{macro}_connect!: edge value', 'helper'))
        else:
            n = ex.call(f'{r.kind}::<K, N, E>::len', [Ref(Cell(r))])
            cs.append((n == 0, f'{macro}![] should be empty', 'helper'))
        return [{'item': [macro, which], 'binding': None, 'msg': cs[i][1], 'kind': cs[i][2]} for i, m in ex.prove_all(cs)]
    st = explore(ex, harness)
    return {'paths': st['paths'], 'solver_calls': st['solver_calls'], 'asserts': st['asserts'], 'solver_s': st['solver_s'], 'cross': st['cross'], 'steps': st['steps'],
            'infeasible': st['infeasible'], 'findings': st['findings'], 'cells': [str((macro, 'helper'))],
            'cov_fns': list(ex.cov_fns), 'cov_prims': list(ex.cov_prims), 'sample': None}


def val_worker(item):
    from engine import explore
    (macro, form, shape, b), nat = item
    ex = runner.get_exec()
    res = {}

    def h(ex):
        res['obs'] = observe(ex, macro, form, shape, binding=b)
    explore(ex, h, max_paths=1)
    o = dict(res['obs'])
    o.pop('graph_type', None)
    o.pop('panic_values', None)
    if 'rows' in o:
        o = {'len': o['len'], 'rows': o['rows']}
    same = json.dumps(o, sort_keys=True) == json.dumps(nat, sort_keys=True) if 'panic' not in nat else ('panic' in o and o['panic'] == nat['panic'])
    return {'ok': same, 'case': [macro, form, list(shape), b], 'sym': o, 'nat': nat}


def run(prop, tier, seed):
    import engine
    from mirparse import parse_dump
    rep = Report(prop, tier, seed)
    rnd = random.Random(seed)
    shp = shapes(2, 2) if tier == 'quick' else shapes(3, 2) + [s for s in shapes(2, 3) if 3 in s]
    specs = [(m, f, s) for m in MACROS for f in FORMS for s in shp]
    rep.bounds = {'macros': list(MACROS), 'signature_forms': 4, 'rows': 2 if tier == 'quick' else 3, 'edges_per_row': 2 if tier == 'quick' else '2 (3 rows) / 3 (2 rows)',
                  'row_shapes': 'edge list absent / empty / 1..n edges per row', 'helpers': '*_node! (2 forms), *_connect! (2 forms), empty invocation',
                  'symbolic': 'all keys (row keys assumed pairwise distinct, edge targets unconstrained) and all node / edge values',
                  'outside': 'more rows / edges; key and value types other than usize / i64; arbitrary value expressions with side effects'}
    t = time.time()
    mir, err = dump_probe(specs)
    if mir is None:
        rep.inconclusive.append({'inconclusive': 'probe crate does not compile: ' + err[-600:], 'item': ''})
        return rep.finish(assumptions=[], rule='')
    runner.G.ix.add(parse_dump(mir))
    rep.notes.append(f'probe crate with {len(specs)} macro invocations dumped in {time.time() - t:.1f}s')
    # translator validation: random concrete invocations through executor and native build
    picks = rnd.sample(specs, min(48 if tier == 'quick' else 160, len(specs)))
    cases = [(m, f, s, random_binding(rnd, s)) for (m, f, s) in picks]
    nat, err = run_native(cases)
    if nat is None or len(nat) != len(cases):
        rep.inconclusive.append({'inconclusive': 'native macro crate failed: ' + str(err)[-600:], 'item': ''})
    else:
        for r in parallel(list(zip(cases, nat)), val_worker):
            if 'inconclusive' in r:
                rep.inconclusive.append(r)
            elif r['ok']:
                rep.validated += 1
            else:
                rep.validation_mismatch.append({'case': r['case'], 'executor': r['sym'], 'native': r['nat']})
        # the oracle must accept what the native build does on these (else it is reported below as a finding)
    items = list(specs)
    rnd.shuffle(items)
    graph_types = {}
    for r in parallel(items, worker, chunksize=4):
        for nt in r.get('notes', []):
            graph_types[nt[0]] = nt[1]
        rep.absorb(r)
    for r in parallel([(m, w) for m in MACROS for w in ('connect1', 'connect2', 'empty0')], helper_worker, chunksize=1):
        rep.absorb(r)
    if not rep.samples:
        rep.samples.append(invocation('digraph', 4, (1, None), lambda i: f'k{i}', lambda j: f'v{j}'))
    rep.notes.append({'observation (not asserted - the property does not fix the result type)': graph_types})
    # triage with native replay
    known = load_known()
    groups = {}
    for f in rep.findings:
        sig = {'macro': f['item'][0], 'form': f['item'][1] if isinstance(f['item'][1], int) else str(f['item'][1]), 'kind': f['kind']}
        f['sig'] = sig
        groups.setdefault(json.dumps(sig, sort_keys=True), []).append(f)
    os.makedirs(os.path.join(build.WORK, 'replays'), exist_ok=True)
    nv = 0
    replay_cases = []
    for key, fs in sorted(groups.items()):
        f = fs[0]
        if f['binding'] is not None:
            replay_cases.append((key, f))
    if replay_cases:
        natr, err = run_native([(f['item'][0], f['item'][1], tuple(f['item'][2]), f['binding']) for _, f in replay_cases])
        rep.replays += len(replay_cases)
    confirmed = {}
    for idx, (key, f) in enumerate(replay_cases):
        if natr is None:
            break
        bad = [m for c, m, k in concrete_conditions(f['item'][0], f['item'][1], tuple(f['item'][2]), natr[idx], f['binding']) if not truthy(c)]
        if bad:
            confirmed[key] = (natr[idx], bad)
    for key, fs in sorted(groups.items()):
        f = fs[0]
        sig = f['sig']
        if f['binding'] is not None and key not in confirmed:
            rep.unconfirmed.append({'sig': sig, 'msg': f['msg'], 'binding': f['binding']})
            continue
        k = match_known(known, prop, sig)
        if k is not None:
            rep.known_hit[k['what']] = rep.known_hit.get(k['what'], 0) + len(fs)
            continue
        nv += 1
        path = os.path.join(build.WORK, 'replays', f'C14-{nv}.json')
        inv = invocation(f['item'][0], f['item'][1], tuple(f['item'][2]), lambda i: str(f['binding']['k'][i]), lambda j: str(f['binding']['v'][j])) if f['binding'] else str(f['item'])
        json.dump({'property': prop, 'signature': sig, 'message': f['msg'], 'invocation': inv,
                   'native': confirmed.get(key, [None])[0] if f['binding'] else None, 'count': len(fs)}, open(path, 'w'), indent=1)
        rep.violations.append(path)
        print(f'  counterexample ({len(fs)}x): {sig} :: {f["msg"]} :: {inv}')
    missing = {str((m, f)) for m in MACROS for f in FORMS} - set(rep.cells)
    if missing:
        rep.inconclusive.append({'inconclusive': f'vacuity: no path for {sorted(missing)}', 'item': ''})
    return rep.finish(
        assumptions=['std models of engine A (Vec, HashMap as association list, fmt templates, panic_fmt)', 'row keys are pairwise distinct (well-formed invocation); argument expressions are pure',
                     'the MIR of the probe crate is the macro expansion rustc compiles for a user crate'],
        rule='work item = (macro, signature form, shape); keys and values are symbolic constants, so one item covers every wiring of its shape; oracle = the denotation (listed nodes, listed edges in listed order; panic naming an unlisted key otherwise)')
