"""Models of the std / ahash / serde items gdsl calls (the trusted base of engine A).

Every entry is keyed by the normalised callee name (generics erased).  Iterators are
Agg values dispatched by kind through iter_next so that adaptors compose.
"""
import re

import z3

from engine import (Agg, Cell, Ref, RcH, WeakH, PyFn, RustPanic, Deadlock, Unsupported, UNINIT, FLAVOURS,
                    is_sym, Some, NONE, Ok, Err, UNIT, type_head, strip_generics)

P = {}
PATTERN_PRIMS = []
DROP_HOOKS = {}


def prim(*names):
    def deco(fn):
        for n in names:
            P[n] = fn
        return fn
    return deco


def pattern(rx):
    def deco(fn):
        PATTERN_PRIMS.append((re.compile(rx), fn))
        return fn
    return deco


def elem_ref(r, i):
    return Ref(r.cell, tuple(r.path) + (('i', i),))


def as_bool(ex, c):
    return c if isinstance(c, bool) else ex.branch(c)


# ------------------------------------------------------------------ Rc / Arc / Weak
@prim('Rc::new')
def _(ex, a):
    return RcH(ex.new_box(a[0]))


@prim('Arc::new')
def _(ex, a):
    return RcH(ex.new_box(a[0], arc=True))


@prim('<Rc as Deref>::deref', '<Arc as Deref>::deref')
def _(ex, a):
    h = ex.deref(a[0])
    if h.box.strong <= 0:
        raise Unsupported('deref of dead Rc')
    return Ref(h.box.cell, ())


@prim('<Rc as Clone>::clone', '<Arc as Clone>::clone')
def _(ex, a):
    h = ex.deref(a[0])
    h.box.strong += 1
    return RcH(h.box)


@prim('Rc::downgrade', 'Arc::downgrade')
def _(ex, a):
    h = ex.deref(a[0])
    h.box.weak += 1
    return WeakH(h.box)


@prim('Weak::upgrade')
def _(ex, a):
    w = ex.deref(a[0])
    if w.box.strong == 0:
        return NONE()
    w.box.strong += 1
    return Some(RcH(w.box))


@prim('<Weak as Clone>::clone')
def _(ex, a):
    w = ex.deref(a[0])
    w.box.weak += 1
    return WeakH(w.box)


@prim('Rc::ptr_eq', 'Arc::ptr_eq')
def _(ex, a):
    return ex.deref(a[0]).box is ex.deref(a[1]).box


@prim('Rc::strong_count', 'Arc::strong_count')
def _(ex, a):
    return ex.deref(a[0]).box.strong


@prim('Rc::weak_count', 'Arc::weak_count')
def _(ex, a):
    return ex.deref(a[0]).box.weak - 1


# ------------------------------------------------------------------ RefCell
@prim('RefCell::new')
def _(ex, a):
    return Agg('RefCell', [a[0]], x={'flag': 0})


@prim('RefCell::borrow')
def _(ex, a):
    rc = ex.deref(a[0])
    if rc.x['flag'] < 0:
        raise RustPanic('RefCell already mutably borrowed')
    rc.x['flag'] += 1
    return Agg('RefGuard', [a[0]])


@prim('RefCell::borrow_mut')
def _(ex, a):
    rc = ex.deref(a[0])
    if rc.x['flag'] != 0:
        raise RustPanic('RefCell already borrowed')
    rc.x['flag'] = -1
    return Agg('RefMutGuard', [a[0]])


@prim('RefCell::try_borrow')
def _(ex, a):
    rc = ex.deref(a[0])
    if rc.x['flag'] < 0:
        return Err(Agg('BorrowError', []))
    rc.x['flag'] += 1
    return Ok(Agg('RefGuard', [a[0]]))


@prim('RefCell::try_borrow_mut')
def _(ex, a):
    rc = ex.deref(a[0])
    if rc.x['flag'] != 0:
        return Err(Agg('BorrowMutError', []))
    rc.x['flag'] = -1
    return Ok(Agg('RefMutGuard', [a[0]]))


@prim('<Ref as Deref>::deref', '<RefMut as Deref>::deref', '<RefMut as DerefMut>::deref_mut',
      '<RwLockReadGuard as Deref>::deref', '<RwLockWriteGuard as Deref>::deref',
      '<RwLockWriteGuard as DerefMut>::deref_mut', '<MutexGuard as Deref>::deref',
      '<MutexGuard as DerefMut>::deref_mut')
def _(ex, a):
    g = ex.deref(a[0])
    r = g.f[0]
    return Ref(r.cell, tuple(r.path) + (('f', 0),))


def _drop_refguard(ex, v):
    ex.deref(v.f[0]).x['flag'] -= 1


def _drop_refmut(ex, v):
    ex.deref(v.f[0]).x['flag'] = 0


DROP_HOOKS['RefGuard'] = _drop_refguard
DROP_HOOKS['RefMutGuard'] = _drop_refmut


# ------------------------------------------------------------------ RwLock / Mutex
@prim('RwLock::new', 'Mutex::new')
def _(ex, a):
    return Agg('RwLock', [a[0]], x={'readers': [], 'writer': None, 'waiting_w': set(), 'poisoned': False})


@prim('RwLock::read')
def _(ex, a):
    l = ex.deref(a[0])
    ex.lock_acquire(l, 'r')
    ex.cur.held.append((l, 'r'))
    g = Agg('RwReadGuard', [a[0]], x=ex.cur.id)
    return Err(Agg('PoisonError', [g])) if l.x['poisoned'] else Ok(g)


@prim('RwLock::write', 'Mutex::lock')
def _(ex, a):
    l = ex.deref(a[0])
    ex.lock_acquire(l, 'w')
    ex.cur.held.append((l, 'w'))
    g = Agg('RwWriteGuard', [a[0]], x=ex.cur.id)
    return Err(Agg('PoisonError', [g])) if l.x['poisoned'] else Ok(g)


@prim('RwLock::try_read')
def _(ex, a):
    l = ex.deref(a[0])
    if l.x['writer'] is not None:
        return Err(Agg('TryLockError', [], 1))
    l.x['readers'].append(ex.cur.id)
    return Ok(Agg('RwReadGuard', [a[0]], x=ex.cur.id))


@prim('RwLock::try_write', 'Mutex::try_lock')
def _(ex, a):
    l = ex.deref(a[0])
    if l.x['writer'] is not None or l.x['readers']:
        return Err(Agg('TryLockError', [], 1))
    l.x['writer'] = ex.cur.id
    return Ok(Agg('RwWriteGuard', [a[0]], x=ex.cur.id))


def _unheld(ex, l, mode, tid):
    for t in ([ex.cur] + (ex.threads.threads if ex.threads is not None else [])):
        if t.id == tid and (l, mode) in t.held:
            t.held.remove((l, mode))
            return


def _drop_rguard(ex, v):
    l = ex.deref(v.f[0])
    _unheld(ex, l, 'r', v.x)
    ex.lock_release(l, 'r', v.x)


def _drop_wguard(ex, v):
    l = ex.deref(v.f[0])
    if getattr(ex, 'panicking', False):
        l.x['poisoned'] = True
    _unheld(ex, l, 'w', v.x)
    ex.lock_release(l, 'w', v.x)


DROP_HOOKS['RwReadGuard'] = _drop_rguard
DROP_HOOKS['RwWriteGuard'] = _drop_wguard


# ------------------------------------------------------------------ Vec / slices
@prim('Vec::new')
def _(ex, a):
    return Agg('Vec', [])


@prim('Vec::with_capacity')
def _(ex, a):
    return Agg('Vec', [])


@prim('Vec::push')
def _(ex, a):
    ex.deref(a[0]).f.append(a[1])
    return UNIT()


@prim('Vec::len', 'slice::len', 'VecDeque::len', 'BinaryHeap::len')
def _(ex, a):
    return len(ex.deref(a[0]).f)


@prim('Vec::is_empty', 'slice::is_empty', 'VecDeque::is_empty', 'BinaryHeap::is_empty')
def _(ex, a):
    return len(ex.deref(a[0]).f) == 0


@prim('Vec::clear')
def _(ex, a):
    v = ex.deref(a[0])
    items = v.f[:]
    del v.f[:]
    for x in items:
        ex.drop(x)
    return UNIT()


@prim('Vec::truncate')
def _(ex, a):
    v = ex.deref(a[0])
    n = a[1]
    items = v.f[n:]
    del v.f[n:]
    for x in items:
        ex.drop(x)
    return UNIT()


def _cidx(i):
    if is_sym(i):
        raise Unsupported('symbolic container index')
    return i


@prim('Vec::remove')
def _(ex, a):
    v = ex.deref(a[0])
    i = _cidx(a[1])
    if i >= len(v.f):
        raise RustPanic('removal index out of bounds')
    return v.f.pop(i)


@prim('Vec::swap_remove')
def _(ex, a):
    v = ex.deref(a[0])
    i = _cidx(a[1])
    if i >= len(v.f):
        raise RustPanic('swap_remove index out of bounds')
    x = v.f[i]
    last = v.f.pop()
    if i < len(v.f):
        v.f[i] = last
    return x


@prim('Vec::insert')
def _(ex, a):
    v = ex.deref(a[0])
    i = _cidx(a[1])
    if i > len(v.f):
        raise RustPanic('insertion index out of bounds')
    v.f.insert(i, a[2])
    return UNIT()


@prim('Vec::pop')
def _(ex, a):
    q = ex.deref(a[0])
    return Some(q.f.pop()) if q.f else NONE()


@prim('Vec::append')
def _(ex, a):
    dst = ex.deref(a[0])
    src = ex.deref(a[1])
    dst.f.extend(src.f)
    src.f[:] = []
    return UNIT()


@prim('<Vec as Deref>::deref', '<Vec as DerefMut>::deref_mut', 'Vec::as_slice', 'Vec::as_mut_slice',
      '<AHashSet as Deref>::deref', '<AHashSet as DerefMut>::deref_mut',
      '<AHashMap as Deref>::deref', '<AHashMap as DerefMut>::deref_mut', '<String as Deref>::deref')
def _(ex, a):
    return a[0]


@prim('slice::get', 'slice::get_mut', 'VecDeque::get')
def _(ex, a):
    v = ex.deref(a[0])
    i = _cidx(a[1])
    if 0 <= i < len(v.f):
        return Some(elem_ref(a[0], i))
    return NONE()


@prim('slice::last', 'slice::last_mut', 'VecDeque::back')
def _(ex, a):
    v = ex.deref(a[0])
    return Some(elem_ref(a[0], len(v.f) - 1)) if v.f else NONE()


@prim('slice::first', 'slice::first_mut', 'VecDeque::front')
def _(ex, a):
    v = ex.deref(a[0])
    return Some(elem_ref(a[0], 0)) if v.f else NONE()


@prim('slice::reverse')
def _(ex, a):
    ex.deref(a[0]).f.reverse()
    return UNIT()


@prim('slice::swap')
def _(ex, a):
    v = ex.deref(a[0])
    i, j = _cidx(a[1]), _cidx(a[2])
    if i >= len(v.f) or j >= len(v.f):
        raise RustPanic('index out of bounds')
    v.f[i], v.f[j] = v.f[j], v.f[i]
    return UNIT()


@prim('<Vec as Index>::index', '<Vec as IndexMut>::index_mut', '<VecDeque as Index>::index')
def _(ex, a):
    v = ex.deref(a[0])
    i = _cidx(a[1])
    if i >= len(v.f):
        raise RustPanic('index out of bounds')
    return elem_ref(a[0], i)


@prim('Box::new_uninit')
def _(ex, a):
    mu = Agg('MaybeUninit', [UNIT(), Agg('ManuallyDrop', [Agg('MaybeDangling', [UNINIT])])])
    return Agg('BoxUninit', [Agg('Unique', [Ref(Cell(mu))])])


@prim('boxed::box_assume_init_into_vec_unsafe')
def _(ex, a):
    mu = ex.deref(a[0].f[0].f[0])
    arr = mu.f[1].f[0].f[0]
    return Agg('Vec', list(arr.f))


DROP_HOOKS['BoxUninit'] = lambda ex, v: None


@prim('Box::new')
def _(ex, a):
    return Agg('Box', [a[0]])


def clone_value(ex, x):
    """Clone for modelled containers; gdsl types go through their own Clone MIR"""
    if isinstance(x, RcH):
        x.box.strong += 1
        return RcH(x.box)
    if isinstance(x, WeakH):
        x.box.weak += 1
        return WeakH(x.box)
    if isinstance(x, Agg) and x.kind.startswith(FLAVOURS):
        return ex.call(f'<{x.kind}<K, N, E> as Clone>::clone', [Ref(Cell(x))])
    if isinstance(x, Agg):
        if x.x is not None and x.kind not in ('HashMap', 'HashSet', 'Vec'):
            if x.x == 'zst':
                return x
            raise Unsupported('clone of ' + x.kind)
        return Agg(x.kind, [clone_value(ex, y) for y in x.f], x.variant, x.x)
    return x


@prim('<Vec as Clone>::clone', '<String as Clone>::clone', '<VecDeque as Clone>::clone')
def _(ex, a):
    v = ex.deref(a[0])
    return Agg(v.kind, [clone_value(ex, x) for x in v.f], x=({'cap': len(v.f)} if v.kind == 'Vec' else None))


@prim('<K as Clone>::clone', '<E as Clone>::clone', '<N as Clone>::clone', '<usize as Clone>::clone',
      '<i64 as Clone>::clone', '<u64 as Clone>::clone', '<i32 as Clone>::clone')
def _(ex, a):
    return ex.copyval(ex.deref_all(a[0]))


def _eq(ex, a):
    x, y = ex.deref_all(a[0]), ex.deref_all(a[1])
    return x == y


prim('<&K as PartialEq>::eq', '<K as PartialEq>::eq', '<E as PartialEq>::eq', '<N as PartialEq>::eq',
     '<usize as PartialEq>::eq', '<&usize as PartialEq>::eq', '<i64 as PartialEq>::eq')(_eq)


@prim('<&K as PartialEq>::ne', '<K as PartialEq>::ne', '<E as PartialEq>::ne', '<N as PartialEq>::ne',
      '<usize as PartialEq>::ne')
def _(ex, a):
    x, y = ex.deref_all(a[0]), ex.deref_all(a[1])
    return x != y


def ordering(v):
    return Agg('Ordering', [], v)


def int_cmp(ex, x, y):
    if is_sym(x) or is_sym(y):
        ch = ex.choose(3, [x < y, x == y, x > y])
        return ordering(ch - 1)
    return ordering((x > y) - (x < y))


@prim('<N as Ord>::cmp', '<E as Ord>::cmp', '<K as Ord>::cmp', '<i64 as Ord>::cmp', '<usize as Ord>::cmp')
def _(ex, a):
    return int_cmp(ex, ex.deref_all(a[0]), ex.deref_all(a[1]))


@prim('<N as PartialOrd>::partial_cmp', '<E as PartialOrd>::partial_cmp', '<K as PartialOrd>::partial_cmp',
      '<i64 as PartialOrd>::partial_cmp', '<usize as PartialOrd>::partial_cmp')
def _(ex, a):
    return Some(int_cmp(ex, ex.deref_all(a[0]), ex.deref_all(a[1])))


for _op, _f in (('lt', lambda x, y: x < y), ('le', lambda x, y: x <= y), ('gt', lambda x, y: x > y),
                ('ge', lambda x, y: x >= y)):
    for _t in ('N', 'E', 'K', 'i64', 'usize'):
        P[f'<{_t} as PartialOrd>::{_op}'] = (lambda f: lambda ex, a: f(ex.deref_all(a[0]), ex.deref_all(a[1])))(_f)


@prim('Ordering::reverse')
def _(ex, a):
    return ordering(-a[0].variant)


@prim('Ordering::is_lt')
def _(ex, a):
    return a[0].variant < 0


@prim('Ordering::is_le')
def _(ex, a):
    return a[0].variant <= 0


@prim('Ordering::is_gt')
def _(ex, a):
    return a[0].variant > 0


@prim('Ordering::is_ge')
def _(ex, a):
    return a[0].variant >= 0


@prim('Ordering::is_eq')
def _(ex, a):
    return a[0].variant == 0


@prim('Ordering::then')
def _(ex, a):
    return a[1] if a[0].variant == 0 else a[0]


@prim('<Ordering as PartialEq>::eq')
def _(ex, a):
    return ex.deref_all(a[0]).variant == ex.deref_all(a[1]).variant


# generic comparisons through gdsl's own impls ------------------------------------------------
def value_partial_cmp(ex, ra, rb):
    """partial_cmp of two values held behind references, dispatching to gdsl MIR for gdsl types"""
    x, y = ex.deref(ra), ex.deref(rb)
    if isinstance(x, Agg) and x.kind == 'Reverse':
        return value_partial_cmp(ex, Ref(rb.cell, tuple(rb.path) + (('f', 0),)),
                                 Ref(ra.cell, tuple(ra.path) + (('f', 0),)))
    if isinstance(x, Agg) and x.kind.startswith(FLAVOURS):
        return ex.call(f'<{x.kind}<K, N, E> as PartialOrd>::partial_cmp', [ra, rb])
    if isinstance(x, Agg):
        raise Unsupported('partial_cmp on ' + x.kind)
    return Some(int_cmp(ex, x, y))


def value_le(ex, ra, rb):
    r = value_partial_cmp(ex, ra, rb)
    return r.variant == 1 and r.f[0].variant <= 0


# ------------------------------------------------------------------ iterators
@prim('slice::iter', 'slice::iter_mut', 'VecDeque::iter')
def _(ex, a):
    return Agg('SliceIter', [a[0], 0, None])


@prim('<&Vec as IntoIterator>::into_iter', '<&mut Vec as IntoIterator>::into_iter',
      '<&slice as IntoIterator>::into_iter')
def _(ex, a):
    return Agg('SliceIter', [a[0], 0, None])


@prim('<Vec as IntoIterator>::into_iter', '<VecDeque as IntoIterator>::into_iter')
def _(ex, a):
    return Agg('VecIntoIter', list(a[0].f))


@pattern(r'^<.* as IntoIterator>::into_iter$')
def _(ex, a):
    v = a[0]
    if isinstance(v, Agg) and (v.kind in ITER_KINDS or v.kind.startswith(FLAVOURS)):
        return v
    raise Unsupported(f'into_iter on {v!r}')


def _slice_next(ex, it):
    r, pos, end = it.f
    v = ex.deref(r)
    n = len(v.f) if end is None else end
    if pos < n:
        it.f[1] = pos + 1
        return Some(elem_ref(r, pos))
    return NONE()


def _slice_next_back(ex, it):
    r, pos, end = it.f
    v = ex.deref(r)
    n = len(v.f) if end is None else end
    if pos < n:
        it.f[2] = n - 1
        return Some(elem_ref(r, n - 1))
    return NONE()


def iter_next(ex, itref):
    it = ex.deref(itref)
    k = it.kind
    if k == 'SliceIter':
        return _slice_next(ex, it)
    if k == 'VecIntoIter':
        return Some(it.f.pop(0)) if it.f else NONE()
    if k == 'Enumerate':
        r = iter_next(ex, Ref(itref.cell, tuple(itref.path) + (('f', 0),)))
        if r.variant == 0:
            return r
        i = it.f[1]
        it.f[1] = i + 1
        return Some(Agg('tuple', [i, r.f[0]]))
    if k == 'RevIter':
        inner = it.f[0]
        if inner.kind == 'SliceIter':
            return _slice_next_back(ex, inner)
        raise Unsupported('rev of ' + inner.kind)
    if k == 'MapIter':
        r = iter_next(ex, Ref(itref.cell, tuple(itref.path) + (('f', 0),)))
        if r.variant == 0:
            return r
        return Some(ex.call_closure(Ref(itref.cell, tuple(itref.path) + (('f', 1),)), [r.f[0]]))
    if k == 'FilterIter':
        while True:
            r = iter_next(ex, Ref(itref.cell, tuple(itref.path) + (('f', 0),)))
            if r.variant == 0:
                return r
            keep = ex.call_closure(Ref(itref.cell, tuple(itref.path) + (('f', 1),)), [Ref(Cell(r.f[0]))])
            if as_bool(ex, keep):
                return r
            ex.drop(r.f[0])
    if k == 'ClonedIter':
        r = iter_next(ex, Ref(itref.cell, tuple(itref.path) + (('f', 0),)))
        if r.variant == 0:
            return r
        return Some(clone_value(ex, ex.deref(r.f[0])))
    if k == 'HashIter':
        return _hash_next(ex, it)
    if k == 'SkipIter':
        while it.f[1] > 0:
            it.f[1] -= 1
            r = iter_next(ex, Ref(itref.cell, tuple(itref.path) + (('f', 0),)))
            if r.variant == 0:
                return r
            ex.drop(r.f[0])
        return iter_next(ex, Ref(itref.cell, tuple(itref.path) + (('f', 0),)))
    if k == 'TakeIter':
        if it.f[1] == 0:
            return NONE()
        it.f[1] -= 1
        return iter_next(ex, Ref(itref.cell, tuple(itref.path) + (('f', 0),)))
    if k.startswith(FLAVOURS):
        return ex.call(f'<{k}<K, N, E> as Iterator>::next', [itref])
    raise Unsupported('iter kind ' + k)


ITER_KINDS = {'SliceIter', 'VecIntoIter', 'Enumerate', 'RevIter', 'MapIter', 'FilterIter', 'ClonedIter', 'HashIter',
              'SkipIter', 'TakeIter'}


@pattern(r'^<.* as Iterator>::next$')
def _(ex, a):
    return iter_next(ex, a[0])


@pattern(r'^<.* as DoubleEndedIterator>::next_back$')
def _(ex, a):
    it = ex.deref(a[0])
    if it.kind == 'SliceIter':
        return _slice_next_back(ex, it)
    if it.kind == 'VecIntoIter':
        return Some(it.f.pop()) if it.f else NONE()
    raise Unsupported('next_back on ' + it.kind)


@pattern(r'^<.* as Iterator>::enumerate$')
def _(ex, a):
    return Agg('Enumerate', [a[0], 0])


@pattern(r'^<.* as Iterator>::rev$')
def _(ex, a):
    return Agg('RevIter', [a[0]])


@pattern(r'^<.* as Iterator>::map$')
def _(ex, a):
    return Agg('MapIter', [a[0], a[1]])


@pattern(r'^<.* as Iterator>::filter$')
def _(ex, a):
    return Agg('FilterIter', [a[0], a[1]])


@pattern(r'^<.* as Iterator>::(cloned|copied)$')
def _(ex, a):
    return Agg('ClonedIter', [a[0]])


@pattern(r'^<.* as Iterator>::skip$')
def _(ex, a):
    return Agg('SkipIter', [a[0], a[1]])


@pattern(r'^<.* as Iterator>::take$')
def _(ex, a):
    return Agg('TakeIter', [a[0], a[1]])


def drain(ex, itval):
    c = Cell(itval)
    out = []
    while True:
        r = iter_next(ex, Ref(c))
        if r.variant == 0:
            break
        out.append(r.f[0])
    ex.drop(c.v)
    return out


@pattern(r'^<.* as Iterator>::collect$')
def _(ex, a):
    return Agg('Vec', drain(ex, a[0]))


@pattern(r'^<.* as Iterator>::count$')
def _(ex, a):
    items = drain(ex, a[0])
    for x in items:
        ex.drop(x)
    return len(items)


@pattern(r'^<.* as Iterator>::last$')
def _(ex, a):
    items = drain(ex, a[0])
    for x in items[:-1]:
        ex.drop(x)
    return Some(items[-1]) if items else NONE()


@pattern(r'^<.* as Iterator>::nth$')
def _(ex, a):
    n = a[1]
    while True:
        r = iter_next(ex, a[0])
        if r.variant == 0 or n == 0:
            return r
        ex.drop(r.f[0])
        n -= 1


@pattern(r'^<.* as Iterator>::for_each$')
def _(ex, a):
    c = Cell(a[0])
    f = Cell(a[1])
    while True:
        r = iter_next(ex, Ref(c))
        if r.variant == 0:
            break
        ex.call_closure(Ref(f), [r.f[0]])
    return UNIT()


def _search(ex, a, want):
    """any / all / find / position over an iterator taken by &mut"""
    f = Cell(a[1])
    i = 0
    while True:
        r = iter_next(ex, a[0])
        if r.variant == 0:
            return None, i
        x = r.f[0]
        arg = Ref(Cell(x)) if want == 'find' else x
        if as_bool(ex, ex.call_closure(Ref(f), [arg])) == (want != 'all'):
            return x, i
        i += 1


@pattern(r'^<.* as Iterator>::any$')
def _(ex, a):
    x, _ = _search(ex, a, 'any')
    return x is not None


@pattern(r'^<.* as Iterator>::all$')
def _(ex, a):
    x, _ = _search(ex, a, 'all')
    return x is None


@pattern(r'^<.* as Iterator>::find$')
def _(ex, a):
    x, _ = _search(ex, a, 'find')
    return NONE() if x is None else Some(x)


@pattern(r'^<.* as Iterator>::position$')
def _(ex, a):
    x, i = _search(ex, a, 'position')
    return NONE() if x is None else Some(i)


@prim('slice::contains')
def _(ex, a):
    v = ex.deref(a[0])
    k = ex.deref_all(a[1])
    for x in v.f:
        if as_bool(ex, x == k):
            return True
    return False


@prim('Vec::retain', 'VecDeque::retain')
def _(ex, a):
    v = ex.deref(a[0])
    f = Cell(a[1])
    keep = []
    for i, x in enumerate(list(v.f)):
        if as_bool(ex, ex.call_closure(Ref(f), [elem_ref(a[0], i)])):
            keep.append(x)
        else:
            ex.drop(x)
    v.f[:] = keep
    return UNIT()


@prim('Vec::extend', '<Vec as Extend>::extend')
def _(ex, a):
    ex.deref(a[0]).f.extend(drain(ex, a[1]) if a[1].kind in ITER_KINDS else list(a[1].f))
    return UNIT()


# ------------------------------------------------------------------ Option / Result
@prim('Option::unwrap')
def _(ex, a):
    if a[0].variant == 0:
        raise RustPanic('called `Option::unwrap()` on a `None` value')
    return a[0].f[0]


@prim('Option::expect')
def _(ex, a):
    if a[0].variant == 0:
        raise RustPanic('Option::expect: ' + str(a[1].f[0]))
    return a[0].f[0]


@prim('Result::unwrap')
def _(ex, a):
    if a[0].variant == 1:
        e = a[0].f[0]
        raise RustPanic('called `Result::unwrap()` on an `Err` value: ' + (e.kind if isinstance(e, Agg) else str(e)))
    return a[0].f[0]


@prim('Result::expect')
def _(ex, a):
    if a[0].variant == 1:
        raise RustPanic('Result::expect: ' + str(a[1].f[0]))
    return a[0].f[0]


@prim('Option::is_some', 'Result::is_err')
def _(ex, a):
    return ex.deref(a[0]).variant == 1


@prim('Option::is_none', 'Result::is_ok')
def _(ex, a):
    return ex.deref(a[0]).variant == 0


@prim('Option::map')
def _(ex, a):
    if a[0].variant == 0:
        return NONE()
    return Some(ex.call_closure(a[1], [a[0].f[0]]))


@prim('Option::and_then')
def _(ex, a):
    if a[0].variant == 0:
        return NONE()
    return ex.call_closure(a[1], [a[0].f[0]])


@prim('Option::cloned', 'Option::copied')
def _(ex, a):
    if a[0].variant == 0:
        return NONE()
    return Some(clone_value(ex, ex.deref(a[0].f[0])))


@prim('Option::as_ref', 'Option::as_mut')
def _(ex, a):
    o = ex.deref(a[0])
    if o.variant == 0:
        return NONE()
    return Some(Ref(a[0].cell, tuple(a[0].path) + (('f', 0),)))


@prim('Option::take')
def _(ex, a):
    o = ex.deref(a[0])
    if o.variant == 0:
        return NONE()
    r = Some(o.f[0])
    o.variant, o.f = 0, []
    return r


@prim('Option::ok_or')
def _(ex, a):
    if a[0].variant == 1:
        ex.drop(a[1])
        return Ok(a[0].f[0])
    return Err(a[1])


@prim('Option::ok_or_else')
def _(ex, a):
    if a[0].variant == 1:
        return Ok(a[0].f[0])
    return Err(ex.call_closure(a[1], []))


@prim('Option::unwrap_or')
def _(ex, a):
    if a[0].variant == 1:
        ex.drop(a[1])
        return a[0].f[0]
    return a[1]


@prim('Option::unwrap_or_else')
def _(ex, a):
    if a[0].variant == 1:
        return a[0].f[0]
    return ex.call_closure(a[1], [])


@prim('Option::unwrap_or_default')
def _(ex, a):
    if a[0].variant == 1:
        return a[0].f[0]
    return Agg('Vec', [])


@prim('Result::ok')
def _(ex, a):
    if a[0].variant == 0:
        return Some(a[0].f[0])
    ex.drop(a[0].f[0])
    return NONE()


@prim('Result::err')
def _(ex, a):
    if a[0].variant == 1:
        return Some(a[0].f[0])
    ex.drop(a[0].f[0])
    return NONE()


@prim('Result::map')
def _(ex, a):
    if a[0].variant == 1:
        return a[0]
    return Ok(ex.call_closure(a[1], [a[0].f[0]]))


@prim('Result::map_err')
def _(ex, a):
    if a[0].variant == 0:
        return a[0]
    return Err(ex.call_closure(a[1], [a[0].f[0]]))


@prim('Result::unwrap_or')
def _(ex, a):
    if a[0].variant == 0:
        ex.drop(a[1])
        return a[0].f[0]
    ex.drop(a[0].f[0])
    return a[1]


@prim('<Result as Try>::branch')
def _(ex, a):
    r = a[0]
    if r.variant == 0:
        return Agg('ControlFlow', [r.f[0]], 0)
    return Agg('ControlFlow', [Err(r.f[0])], 1)


@prim('<Option as Try>::branch')
def _(ex, a):
    r = a[0]
    if r.variant == 1:
        return Agg('ControlFlow', [r.f[0]], 0)
    return Agg('ControlFlow', [NONE()], 1)


@prim('<Result as FromResidual>::from_residual')
def _(ex, a):
    return Err(a[0].f[0])


@prim('<Option as FromResidual>::from_residual')
def _(ex, a):
    return NONE()


@prim('<Error as From>::from', '<assoc as From>::from')
def _(ex, a):
    return a[0]


# ------------------------------------------------------------------ closures through dyn
@prim('<&dyn as FnMut>::call_mut', '<&dyn as Fn>::call', '<dyn as FnMut>::call_mut', '<dyn as Fn>::call',
      '<&dyn as FnOnce>::call_once')
def _(ex, a):
    return ex.call_closure(a[0], a[1].f)


# ------------------------------------------------------------------ VecDeque / BinaryHeap
@prim('VecDeque::new', 'VecDeque::with_capacity')
def _(ex, a):
    return Agg('VecDeque', [])


@prim('VecDeque::push_back')
def _(ex, a):
    ex.deref(a[0]).f.append(a[1])
    return UNIT()


@prim('VecDeque::push_front')
def _(ex, a):
    ex.deref(a[0]).f.insert(0, a[1])
    return UNIT()


@prim('VecDeque::pop_front')
def _(ex, a):
    q = ex.deref(a[0])
    return Some(q.f.pop(0)) if q.f else NONE()


@prim('VecDeque::pop_back')
def _(ex, a):
    q = ex.deref(a[0])
    return Some(q.f.pop()) if q.f else NONE()


@prim('BinaryHeap::new', 'BinaryHeap::with_capacity')
def _(ex, a):
    return Agg('BinaryHeap', [])


def _heap_le(ex, href, i, j):
    return value_le(ex, elem_ref(href, i), elem_ref(href, j))


def _sift_up(ex, href, start, pos):
    """std::collections::BinaryHeap::sift_up (hole-based; element order identical to std's)"""
    d = ex.deref(href).f
    elt = d[pos]
    # the hole's element is compared through a temporary slot appended at the end
    while pos > start:
        parent = (pos - 1) // 2
        d[pos] = elt
        if _heap_le(ex, href, pos, parent):
            break
        d[pos] = d[parent]
        pos = parent
    d[pos] = elt
    return pos


def _sift_down_to_bottom(ex, href, pos):
    d = ex.deref(href).f
    end = len(d)
    start = pos
    elt = d[pos]
    child = 2 * pos + 1
    while child <= max(end - 2, 0):
        if _heap_le(ex, href, child, child + 1):
            child += 1
        d[pos] = d[child]
        pos = child
        child = 2 * pos + 1
    if child == end - 1:
        d[pos] = d[child]
        pos = child
    d[pos] = elt
    _sift_up(ex, href, start, pos)


@prim('BinaryHeap::push')
def _(ex, a):
    h = ex.deref(a[0])
    old = len(h.f)
    h.f.append(a[1])
    _sift_up(ex, a[0], 0, old)
    return UNIT()


@prim('BinaryHeap::pop')
def _(ex, a):
    h = ex.deref(a[0])
    if not h.f:
        return NONE()
    item = h.f.pop()
    if h.f:
        item, h.f[0] = h.f[0], item
        _sift_down_to_bottom(ex, a[0], 0)
    return Some(item)


@prim('BinaryHeap::peek')
def _(ex, a):
    h = ex.deref(a[0])
    return Some(elem_ref(a[0], 0)) if h.f else NONE()


# ------------------------------------------------------------------ HashSet / HashMap (association lists)
@prim('<AHashSet as Default>::default', '<HashSet as Default>::default', 'AHashSet::new', 'HashSet::new',
      'AHashSet::with_capacity', 'HashSet::with_capacity', 'HashSet::with_hasher',
      'HashSet::with_capacity_and_hasher')
def _(ex, a):
    return Agg('HashSet', [], x={'set': True})


@prim('<AHashMap as Default>::default', '<HashMap as Default>::default', 'AHashMap::new', 'HashMap::new',
      'HashMap::with_hasher')
def _(ex, a):
    return Agg('HashMap', [], x={'set': False})


def _cap_check(ex, n, what):
    # hashbrown / RawVec: a capacity whose byte size exceeds isize::MAX panics ("capacity overflow"); anything the
    # allocator cannot serve aborts the process.  Either way the call does not return.
    if is_sym(n):
        if ex.branch(n > 2 ** 40):
            raise RustPanic(what + ': capacity overflow / allocation failure')
    elif n > 2 ** 40:
        raise RustPanic(what + ': capacity overflow / allocation failure')


@prim('AHashMap::with_capacity', 'HashMap::with_capacity', 'HashMap::with_capacity_and_hasher')
def _(ex, a):
    _cap_check(ex, a[0], 'Hash table')
    return Agg('HashMap', [], x={'set': False})


def _find(ex, m, k):
    """index of key k in association list m.f (entries are [key, value] Aggs), branching on symbolic equality"""
    if isinstance(k, Ref):
        k = ex.deref_all(k)
    for i, ent in enumerate(m.f):
        ek = ent.f[0]
        if isinstance(ek, Ref):            # maps keyed by references (HashMap<&K, _>) compare the referents
            ek = ex.deref_all(ek)
        if _key_eq(ex, ek, k):
            return i
    return -1


def _key_eq(ex, a, b):
    """equality of two hash keys (scalars, references to scalars, tuples of those), branching on symbolic parts"""
    if isinstance(a, Ref):
        a = ex.deref_all(a)
    if isinstance(b, Ref):
        b = ex.deref_all(b)
    if isinstance(a, Agg) and isinstance(b, Agg):
        if a.kind != b.kind or len(a.f) != len(b.f):
            return False
        if a.kind not in ('tuple', 'array', 'Option', 'Reverse'):
            raise Unsupported('hash key of kind ' + a.kind)
        if a.variant != b.variant:
            return False
        return all(_key_eq(ex, x, y) for x, y in zip(a.f, b.f))
    c = a == b
    return c if isinstance(c, bool) else ex.branch(c)


@prim('HashSet::contains', 'AHashSet::contains', 'HashMap::contains_key', 'AHashMap::contains_key')
def _(ex, a):
    return _find(ex, ex.deref(a[0]), ex.deref_all(a[1])) >= 0


@prim('HashSet::insert', 'AHashSet::insert')
def _(ex, a):
    s = ex.deref(a[0])
    if _find(ex, s, a[1]) >= 0:
        return False
    s.f.append(Agg('tuple', [a[1], UNIT()]))
    return True


@prim('HashSet::remove', 'AHashSet::remove')
def _(ex, a):
    s = ex.deref(a[0])
    i = _find(ex, s, ex.deref_all(a[1]))
    if i < 0:
        return False
    s.f.pop(i)
    return True


@prim('HashMap::insert', 'AHashMap::insert')
def _(ex, a):
    m = ex.deref(a[0])
    i = _find(ex, m, a[1])
    if i >= 0:
        old = m.f[i].f[1]
        m.f[i].f[1] = a[2]
        return Some(old)
    m.f.append(Agg('tuple', [a[1], a[2]]))
    return NONE()


@prim('HashMap::get', 'AHashMap::get', 'HashMap::get_mut', 'AHashMap::get_mut')
def _(ex, a):
    m = ex.deref(a[0])
    i = _find(ex, m, ex.deref_all(a[1]))
    if i < 0:
        return NONE()
    return Some(Ref(a[0].cell, tuple(a[0].path) + (('i', i), ('f', 1))))


@prim('<HashMap as Index>::index', '<AHashMap as Index>::index')
def _(ex, a):
    m = ex.deref(a[0])
    i = _find(ex, m, ex.deref_all(a[1]))
    if i < 0:
        raise RustPanic('HashMap index: key not found')
    return Ref(a[0].cell, tuple(a[0].path) + (('i', i), ('f', 1)))


@prim('HashMap::remove', 'AHashMap::remove')
def _(ex, a):
    m = ex.deref(a[0])
    i = _find(ex, m, ex.deref_all(a[1]))
    if i < 0:
        return NONE()
    return Some(m.f.pop(i).f[1])


@prim('HashMap::len', 'AHashMap::len', 'HashSet::len', 'AHashSet::len')
def _(ex, a):
    return len(ex.deref(a[0]).f)


@prim('HashMap::is_empty', 'AHashMap::is_empty', 'HashSet::is_empty', 'AHashSet::is_empty')
def _(ex, a):
    return len(ex.deref(a[0]).f) == 0


@prim('HashMap::clear', 'AHashMap::clear', 'HashSet::clear', 'AHashSet::clear')
def _(ex, a):
    m = ex.deref(a[0])
    items = m.f[:]
    del m.f[:]
    for x in items:
        ex.drop(x)
    return UNIT()


@prim('HashMap::iter', 'AHashMap::iter')
def _(ex, a):
    m = ex.deref(a[0])
    return Agg('HashIter', [a[0], list(range(len(m.f))), 'kv'])


@prim('HashMap::values', 'AHashMap::values')
def _(ex, a):
    m = ex.deref(a[0])
    return Agg('HashIter', [a[0], list(range(len(m.f))), 'v'])


@prim('HashMap::keys', 'AHashMap::keys', 'HashSet::iter', 'AHashSet::iter')
def _(ex, a):
    m = ex.deref(a[0])
    return Agg('HashIter', [a[0], list(range(len(m.f))), 'k'])


@prim('<&HashMap as IntoIterator>::into_iter', '<&AHashMap as IntoIterator>::into_iter')
def _(ex, a):
    m = ex.deref(a[0])
    return Agg('HashIter', [a[0], list(range(len(m.f))), 'kv'])


def _hash_next(ex, it):
    """iteration order of a hash container: a free choice among the entries not yet yielded.
    ex.hash_order (optional) fixes the order: 'insertion' or a callable."""
    r, remaining, mode = it.f
    if not remaining:
        return NONE()
    pol = getattr(ex, 'hash_order', None)
    rep = getattr(ex, 'hash_replay', None)
    if rep:
        j = rep.pop(0)
        if j >= len(remaining):
            raise Unsupported('hash iteration replay out of range')
    elif pol == 'insertion':
        j = 0
    else:
        j = ex.choose(len(remaining), label='hash-iter')
    rec = getattr(ex, 'hash_record', None)
    if rec is not None:
        rec.append(j)
    i = remaining.pop(j)
    ex.events.append(('hash_iter', i))
    kr = Ref(r.cell, tuple(r.path) + (('i', i), ('f', 0)))
    vr = Ref(r.cell, tuple(r.path) + (('i', i), ('f', 1)))
    if mode == 'kv':
        return Some(Agg('tuple', [kr, vr]))
    return Some(kr if mode == 'k' else vr)


# ------------------------------------------------------------------ mem
@prim('mem::size_of', 'mem::size_of_val', 'mem::align_of')
def _(ex, a):
    return 8


@prim('mem::forget')
def _(ex, a):
    return UNIT()


@prim('mem::drop')
def _(ex, a):
    ex.drop(a[0])
    return UNIT()


@prim('mem::swap')
def _(ex, a):
    x, y = ex.deref(a[0]), ex.deref(a[1])
    ex.store(a[0].cell, a[0].path, y)
    ex.store(a[1].cell, a[1].path, x)
    return UNIT()


@prim('mem::replace')
def _(ex, a):
    x = ex.deref(a[0])
    ex.store(a[0].cell, a[0].path, a[1])
    return x


@prim('mem::take')
def _(ex, a):
    x = ex.deref(a[0])
    if isinstance(x, Agg) and x.kind in ('Vec', 'VecDeque', 'String', 'HashMap', 'HashSet'):
        ex.store(a[0].cell, a[0].path, Agg(x.kind, [], x=x.x))
        return x
    if isinstance(x, Agg) and x.kind == 'Option':
        ex.store(a[0].cell, a[0].path, NONE())
        return x
    raise Unsupported('mem::take')


@prim('must_use', 'hint::must_use', 'convert::identity', 'hint::black_box')
def _(ex, a):
    return a[0]


# ------------------------------------------------------------------ strings and formatting
# A String / &str is a token list: python str pieces and displayed values (ints or z3 terms).
@prim('String::new')
def _(ex, a):
    return Agg('String', [])


def _tokens(ex, v):
    v = ex.deref_all(v)
    if isinstance(v, Agg) and v.kind in ('String', 'str'):
        return list(v.f)
    if isinstance(v, Agg) and v.kind == 'char':
        return [v.f[0]]
    if isinstance(v, Agg):
        raise Unsupported('display of ' + v.kind)
    return [('val', v)]


@prim('String::push_str', '<String as Write>::write_str')
def _(ex, a):
    ex.deref(a[0]).f.extend(_tokens(ex, a[1]))
    return UNIT()


@prim('String::push', '<String as Write>::write_char')
def _(ex, a):
    ex.deref(a[0]).f.append(a[1].f[0])
    return UNIT()


@prim('<String as From>::from', 'str::to_string', '<str as ToString>::to_string', 'str::to_owned',
      '<str as ToOwned>::to_owned', 'String::from')
def _(ex, a):
    return Agg('String', _tokens(ex, a[0]))


@prim('String::as_str', '<String as AsRef>::as_ref')
def _(ex, a):
    return a[0]


@prim('Argument::new_display', 'Argument::new_debug')
def _(ex, a):
    return Agg('FmtArg', [a[0]])


def _decode_template(tpl, nargs):
    """rustc 1.95 format template: <len><literal bytes> | 0xC0 (next argument) | 0x00 end"""
    out, i, argi = [], 0, 0
    while i < len(tpl):
        b = tpl[i]
        if b == 0:
            break
        if b == 0xC0:
            out.append(('arg', argi))
            argi += 1
            i += 1
        elif b < 0x80:
            out.append(('lit', tpl[i + 1:i + 1 + b].decode('utf-8')))
            i += 1 + b
        else:
            raise Unsupported(f'format template opcode {b:#x}')
    if argi != nargs:
        raise Unsupported('format template / argument count mismatch')
    return out


@prim('Arguments::new')
def _(ex, a):
    tpl = a[0].f[0]
    args = ex.deref(a[1])
    toks = []
    for kind, x in _decode_template(tpl, len(args.f)):
        if kind == 'lit':
            toks.append(x)
        else:
            toks.extend(_tokens(ex, args.f[x].f[0]))
    return Agg('Arguments', toks)


@prim('Arguments::from_str', 'Arguments::new_const')
def _(ex, a):
    return Agg('Arguments', _tokens(ex, a[0]))


@prim('format', 'fmt::format')
def _(ex, a):
    return Agg('String', list(a[0].f))


@prim('<String as Write>::write_fmt', 'Write::write_fmt')
def _(ex, a):
    ex.deref(a[0]).f.extend(a[1].f)
    return Ok(UNIT())


@prim('Formatter::write_str', 'Formatter::write_fmt')
def _(ex, a):
    f = ex.deref(a[0])
    f.f.extend(_tokens(ex, a[1]) if a[1].kind != 'Arguments' else a[1].f)
    return Ok(UNIT())


def render(tokens, model=None):
    """token list -> python string; symbolic values are evaluated in model (or printed as <name>)"""
    out = []
    for t in tokens:
        if isinstance(t, str):
            out.append(t)
        else:
            v = t[1]
            if is_sym(v):
                if model is not None:
                    v = model.eval(v, model_completion=True)
                out.append(str(v))
            else:
                out.append(str(v))
    return ''.join(out)


@prim('panic_fmt', 'panicking::panic_fmt', 'rt::panic_fmt')
def _(ex, a):
    ex.panic_tokens = list(a[0].f)
    raise RustPanic('panic: ' + render(a[0].f))


@prim('panicking::panic', 'panic', 'panicking::panic_explicit', 'option::unwrap_failed', 'option::expect_failed',
      'result::unwrap_failed')
def _(ex, a):
    raise RustPanic('panic: ' + (str(a[0].f[0]) if a and isinstance(a[0], Agg) and a[0].f else ''))


# ------------------------------------------------------------------ Reverse
@prim('<Reverse as PartialOrd>::partial_cmp')
def _(ex, a):
    return value_partial_cmp(ex, a[0], a[1])


# ------------------------------------------------------------------ serde at the data-model boundary
# The Serializer / SeqAccess a format would provide is the environment: the stub serializer records the
# data-model value gdsl emits, the stub SeqAccess hands a prepared value back element by element.
def data_model(ex, v):
    """deep copy of a value as plain python lists (ints / z3 terms at the leaves)"""
    v = ex.deref_all(v)
    if isinstance(v, Agg):
        if v.kind in ('Vec', 'tuple', 'array'):
            return [data_model(ex, x) for x in v.f]
        raise Unsupported('data model of ' + v.kind)
    return v


@prim('<S as Serializer>::serialize_tuple')
def _(ex, a):
    return Ok(Agg('StubTuple', [[], a[1]]))


@prim('<assoc as SerializeTuple>::serialize_element')
def _(ex, a):
    t = ex.deref(a[0])
    t.f[0].append(data_model(ex, a[1]))
    return Ok(UNIT())


@prim('<assoc as SerializeTuple>::end')
def _(ex, a):
    if len(a[0].f[0]) != a[0].f[1]:
        raise RustPanic('serialize_tuple: wrong number of elements')
    return Ok(Agg('StubOk', [a[0].f[0]]))


DROP_HOOKS['StubTuple'] = lambda ex, v: None
DROP_HOOKS['StubOk'] = lambda ex, v: None
DROP_HOOKS['StubSeq'] = lambda ex, v: None
DROP_HOOKS['DeError'] = lambda ex, v: None


def to_rust(x):
    """python nested lists -> Vec of tuples of scalars (the shape Vec<(K, N)> / Vec<(K, K, E)>)"""
    return Agg('Vec', [Agg('tuple', list(row)) for row in x])


HUGE = 2 ** 64 - 1


def _type_arg(callee):
    i = callee.rfind('::<')
    return callee[i + 3:-1].strip() if i >= 0 and callee.endswith('>') else ''


def _crate_deserialize(ex, tname):
    """gdsl's own `impl Deserialize for T` (any flavour) for the bare type name tname, or None"""
    last = strip_generics_simple(tname).split('::')[-1]
    hits = [f for (fl, ty, meth), cands in ex.ix.methods.items() if ty == last and meth == 'deserialize' for (f, tr, st) in cands]
    return hits


def strip_generics_simple(t):
    i = t.find('<')
    return t if i < 0 else t[:i]


@prim('<A as SeqAccess>::next_element')
def _(ex, a):
    """the environment's SeqAccess.  An element is a python list (a sequence: rows of scalars), 'err' (an element the
    format rejects) or {'rows': [...], 'announce': 'huge'} - a sequence whose header announces 2^64-1 elements: the
    format then delivers the real elements and fails at the end of input."""
    s = ex.deref(a[0])
    T = _type_arg(ex.cur_callee)
    if s.x and s.x.get('elem'):                      # inside a sequence: one row per call
        if s.f[0]:
            return Ok(Some(Agg('tuple', list(s.f[0].pop(0)))))
        if s.x.get('announce') == 'huge':
            return Err(Agg('DeError', ['eof']))
        return Ok(NONE())
    if not s.f[0]:
        return Ok(NONE())
    if s.f[0][0] == 'err':
        # an element the format cannot parse: the error is reported again on every later call (the position does
        # not advance), as the streaming formats do
        return Err(Agg('DeError', ['injected']))
    el = s.f[0].pop(0)
    if T.endswith('IgnoredAny'):
        return Ok(Some(Agg('IgnoredAny', [])))
    rows, announce = (el['rows'], el.get('announce')) if isinstance(el, dict) else (el, None)
    if not T.startswith(('Vec<', 'std::vec::Vec<', 'alloc::vec::Vec<')):
        own = _crate_deserialize(ex, T)
        if len(own) == 1:
            # a Deserialize impl of the crate itself: it gets a deserializer positioned at this sequence
            r = ex.call_fn(own[0], [Agg('StubDe', [[list(r) for r in rows], announce])])
            return Ok(Some(r.f[0])) if r.variant == 0 else r
        raise Unsupported('next_element::<%s>' % T)
    if announce == 'huge':
        return Err(Agg('DeError', ['eof']))          # serde's Vec visitor caps the hint and reads until the input ends
    return Ok(Some(to_rust(rows)))


@prim('<A as SeqAccess>::size_hint')
def _(ex, a):
    s = ex.deref(a[0])
    if s.x and s.x.get('announce') == 'huge':
        return Some(HUGE)
    n = len(s.f[0])
    return Some(n) if ex.choose(2, label='size-hint') == 0 else NONE()      # formats may or may not know the length


DROP_HOOKS['StubDe'] = lambda ex, v: None


@prim('<assoc as Error>::custom')
def _(ex, a):
    return Agg('DeError', [render(a[0].f) if isinstance(a[0], Agg) else str(a[0])])


@prim('<D as Deserializer>::deserialize_seq')
def _(ex, a):
    vis = a[1]
    last = strip_generics_simple(vis.kind).split('::')[-1]
    if isinstance(a[0], Agg) and a[0].kind == 'StubDe':
        hits = [f for (fl, ty, meth), cands in ex.ix.methods.items() if ty == last and meth == 'visit_seq' for (f, tr, st) in cands]
        if len(hits) != 1:
            raise Unsupported('visit_seq of ' + vis.kind)
        rows, announce = a[0].f
        return ex.call_fn(hits[0], [vis, Agg('StubSeq', [rows], x={'elem': True, 'announce': announce})])
    fl = vis.kind.split('::')[0]
    cands = ex.ix.methods.get((fl, 'GraphVisitor', 'visit_seq'), [])
    if len(cands) != 1:
        raise Unsupported('visit_seq not found for ' + fl)
    r = ex.call_fn(cands[0][0], [vis, a[0]])
    if r.variant == 0 and isinstance(a[0], Agg) and a[0].kind == 'StubSeq' and a[0].f[0]:
        # the visitor returned without consuming the whole sequence: the format's end-of-sequence check fails
        # (serde_json: trailing characters; serde_cbor: trailing data)
        ex.drop(r.f[0])
        return Err(Agg('DeError', ['trailing elements']))
    return r


# ------------------------------------------------------------------ BTreeSet / BTreeMap (sorted lists, element Ord through gdsl's MIR)
def value_cmp(ex, ra, rb):
    """Ord::cmp of two values behind references -> -1 / 0 / 1 (branching on symbolic data)"""
    x, y = ex.deref(ra), ex.deref(rb)
    if isinstance(x, Agg) and x.kind == 'Reverse':
        return value_cmp(ex, Ref(rb.cell, tuple(rb.path) + (('f', 0),)), Ref(ra.cell, tuple(ra.path) + (('f', 0),)))
    if isinstance(x, Agg) and x.kind.startswith(FLAVOURS):
        return ex.call(f'<{x.kind}<K, N, E> as Ord>::cmp', [ra, rb]).variant
    if isinstance(x, Agg) and x.kind == 'tuple':
        for i in range(len(x.f)):
            c = value_cmp(ex, Ref(ra.cell, tuple(ra.path) + (('f', i),)), Ref(rb.cell, tuple(rb.path) + (('f', i),)))
            if c != 0:
                return c
        return 0
    if isinstance(x, Agg):
        raise Unsupported('Ord::cmp on ' + x.kind)
    return int_cmp(ex, x, y).variant


def _bt_locate(ex, sref, keyref, keyof=None):
    """-> (index, found) in the sorted element list of the container behind sref"""
    s = ex.deref(sref)
    for i in range(len(s.f)):
        er = elem_ref(sref, i)
        if keyof:
            er = Ref(er.cell, tuple(er.path) + (('f', 0),))
        c = value_cmp(ex, keyref, er)
        if c == 0:
            return i, True
        if c < 0:
            return i, False
    return len(s.f), False


@prim('BTreeSet::new', 'BTreeMap::new', '<BTreeSet as Default>::default', '<BTreeMap as Default>::default')
def _(ex, a):
    return Agg('BTree', [])


@prim('<BTreeSet as From>::from', '<BTreeSet as FromIterator>::from_iter')
def _(ex, a):
    items = list(a[0].f) if a[0].kind in ('array', 'Vec') else drain(ex, a[0])
    c = Cell(Agg('BTree', []))
    for it in items:
        P['BTreeSet::insert'](ex, [Ref(c), it])
    return c.v


@prim('BTreeSet::insert')
def _(ex, a):
    i, found = _bt_locate(ex, a[0], Ref(Cell(a[1])))
    if found:
        ex.drop(a[1])
        return False
    ex.deref(a[0]).f.insert(i, a[1])
    return True


@prim('BTreeSet::contains', 'BTreeMap::contains_key')
def _(ex, a):
    s = ex.deref(a[0])
    keyed = bool(s.f) and isinstance(s.f[0], Agg) and s.f[0].kind == 'BTEntry'
    return _bt_locate(ex, a[0], a[1], keyof=keyed)[1]


@prim('BTreeSet::remove')
def _(ex, a):
    i, found = _bt_locate(ex, a[0], a[1])
    if found:
        ex.drop(ex.deref(a[0]).f.pop(i))
    return found


@prim('BTreeSet::take')
def _(ex, a):
    i, found = _bt_locate(ex, a[0], a[1])
    return Some(ex.deref(a[0]).f.pop(i)) if found else NONE()


@prim('BTreeSet::pop_first')
def _(ex, a):
    s = ex.deref(a[0])
    return Some(s.f.pop(0)) if s.f else NONE()


@prim('BTreeSet::pop_last')
def _(ex, a):
    s = ex.deref(a[0])
    return Some(s.f.pop()) if s.f else NONE()


@prim('BTreeSet::first')
def _(ex, a):
    return Some(elem_ref(a[0], 0)) if ex.deref(a[0]).f else NONE()


@prim('BTreeSet::last')
def _(ex, a):
    s = ex.deref(a[0])
    return Some(elem_ref(a[0], len(s.f) - 1)) if s.f else NONE()


@prim('BTreeSet::len', 'BTreeMap::len')
def _(ex, a):
    return len(ex.deref(a[0]).f)


@prim('BTreeSet::is_empty', 'BTreeMap::is_empty')
def _(ex, a):
    return len(ex.deref(a[0]).f) == 0


@prim('BTreeSet::iter', '<&BTreeSet as IntoIterator>::into_iter')
def _(ex, a):
    return Agg('SliceIter', [a[0], 0, None])


@prim('<BTreeSet as IntoIterator>::into_iter')
def _(ex, a):
    return Agg('VecIntoIter', list(a[0].f))


@prim('BTreeSet::clear', 'BTreeMap::clear')
def _(ex, a):
    s = ex.deref(a[0])
    items = s.f[:]
    del s.f[:]
    for x in items:
        ex.drop(x)
    return UNIT()


@prim('BTreeMap::insert')
def _(ex, a):
    i, found = _bt_locate(ex, a[0], Ref(Cell(a[1])), keyof=True)
    m = ex.deref(a[0])
    if found:
        old = m.f[i].f[1]
        m.f[i].f[1] = a[2]
        ex.drop(a[1])
        return Some(old)
    m.f.insert(i, Agg('BTEntry', [a[1], a[2]]))
    return NONE()


@prim('BTreeMap::get', 'BTreeMap::get_mut')
def _(ex, a):
    i, found = _bt_locate(ex, a[0], a[1], keyof=True)
    if not found:
        return NONE()
    return Some(Ref(a[0].cell, tuple(a[0].path) + (('i', i), ('f', 1))))


@prim('BTreeMap::remove')
def _(ex, a):
    i, found = _bt_locate(ex, a[0], a[1], keyof=True)
    if not found:
        return NONE()
    e = ex.deref(a[0]).f.pop(i)
    ex.drop(e.f[0])
    return Some(e.f[1])


@prim('BTreeMap::pop_first')
def _(ex, a):
    m = ex.deref(a[0])
    if not m.f:
        return NONE()
    e = m.f.pop(0)
    return Some(Agg('tuple', [e.f[0], e.f[1]]))


@prim('BTreeMap::pop_last')
def _(ex, a):
    m = ex.deref(a[0])
    if not m.f:
        return NONE()
    e = m.f.pop()
    return Some(Agg('tuple', [e.f[0], e.f[1]]))


@prim('<BTreeMap as Index>::index')
def _(ex, a):
    i, found = _bt_locate(ex, a[0], a[1], keyof=True)
    if not found:
        raise RustPanic('BTreeMap index: key not found')
    return Ref(a[0].cell, tuple(a[0].path) + (('i', i), ('f', 1)))


@prim('BinaryHeap::into_sorted_vec')
def _(ex, a):
    c = Cell(a[0])
    out = []
    while c.v.f:
        out.append(P['BinaryHeap::pop'](ex, [Ref(c)]).f[0])
    out.reverse()
    return Agg('Vec', out)


@prim('slice::sort', 'slice::sort_unstable')
def _(ex, a):
    v = ex.deref(a[0])
    items = v.f[:]
    # insertion sort through the element's own Ord (stable)
    out = []
    for it in items:
        c = Cell(it)
        j = len(out)
        while j > 0 and value_cmp(ex, Ref(c), Ref(Cell(out[j - 1]))) < 0:
            j -= 1
        out.insert(j, it)
    v.f[:] = out
    return UNIT()


# ------------------------------------------------------------------ sub-slices (v[a..b]) and Vec capacity
def _range_bounds(ex, rng, n):
    k = rng.kind.split('::')[-1]
    if k == 'const' and rng.f and str(rng.f[0]).strip().endswith('RangeFull'):
        k = 'RangeFull'              # `const RangeFull`: the only range that is a unit value
    if k == 'RangeFull':
        return 0, n
    if k == 'RangeFrom':
        return _cidx(rng.f[0]), n
    if k == 'RangeTo':
        return 0, _cidx(rng.f[0])
    if k == 'Range':
        return _cidx(rng.f[0]), _cidx(rng.f[1])
    if k == 'RangeInclusive':
        return _cidx(rng.f[0]), _cidx(rng.f[1]) + 1
    if k == 'RangeToInclusive':
        return 0, _cidx(rng.f[0]) + 1
    raise Unsupported('range kind ' + rng.kind)


def _is_range(x):
    return isinstance(x, Agg) and x.kind.split('::')[-1] in ('RangeFull', 'RangeFrom', 'RangeTo', 'Range', 'RangeInclusive', 'RangeToInclusive')


def _index_any(ex, a):
    v = ex.deref(a[0])
    if _is_range(a[1]):
        base, off, n = _view(ex, a[0])
        s, e = _range_bounds(ex, a[1], n)
        if s > e or e > n:
            raise RustPanic('slice index out of range')
        return Ref(Cell(Agg('SliceView', [base, off + s, off + e])))
    if isinstance(v, Agg) and v.kind == 'SliceView':
        i = _cidx(a[1])
        if i >= v.f[2] - v.f[1]:
            raise RustPanic('index out of bounds')
        return elem_ref(v.f[0], v.f[1] + i)
    i = _cidx(a[1])
    if i >= len(v.f):
        raise RustPanic('index out of bounds')
    return elem_ref(a[0], i)


def _view(ex, r):
    """(base ref to the Vec, offset, length) of a Vec / array / SliceView behind reference r"""
    v = ex.deref(r)
    if isinstance(v, Agg) and v.kind == 'SliceView':
        return v.f[0], v.f[1], v.f[2] - v.f[1]
    return r, 0, len(v.f)


for _n in ('<Vec as Index>::index', '<Vec as IndexMut>::index_mut', '<VecDeque as Index>::index', '<slice as Index>::index',
           '<slice as IndexMut>::index_mut'):
    P[_n] = _index_any


def _wrap_view(name, fn):
    """make a slice primitive accept SliceView receivers by applying it to a temporary list and writing back"""
    orig = P[name]

    def w(ex, a):
        v = ex.deref(a[0])
        if isinstance(v, Agg) and v.kind == 'SliceView':
            base, s, e = v.f
            bl = ex.deref(base).f
            tmp = Cell(Agg('Vec', bl[s:e]))
            r = orig(ex, [Ref(tmp)] + list(a[1:]))
            if len(tmp.v.f) != e - s:
                raise Unsupported('length-changing operation on a sub-slice')
            bl[s:e] = tmp.v.f
            # references into the temporary are re-based onto the real vector
            if isinstance(r, Agg) and r.kind == 'Option' and r.variant == 1 and isinstance(r.f[0], Ref) and r.f[0].cell is tmp:
                p = r.f[0].path
                r = Some(Ref(base.cell, tuple(base.path) + (('i', p[0][1] + s),) + tuple(p[1:])))
            return r
        return orig(ex, a)
    P[name] = w


for _n in ('slice::reverse', 'slice::swap', 'slice::sort', 'slice::sort_unstable', 'slice::contains', 'slice::first', 'slice::last', 'slice::get'):
    _wrap_view(_n, None)


def _len_any(ex, a):
    return _view(ex, a[0])[2]


P['slice::len'] = _len_any
P['Vec::len'] = _len_any
P['slice::is_empty'] = lambda ex, a: _view(ex, a[0])[2] == 0


def _iter_any(ex, a):
    base, off, n = _view(ex, a[0])
    if base is a[0]:
        return Agg('SliceIter', [a[0], 0, None])
    return Agg('SliceIter', [base, off, off + n])


P['slice::iter'] = _iter_any
P['slice::iter_mut'] = _iter_any


@prim('slice::to_vec', '<slice as ToOwned>::to_owned')
def _(ex, a):
    base, off, n = _view(ex, a[0])
    return Agg('Vec', [clone_value(ex, x) for x in ex.deref(base).f[off:off + n]])


# capacity follows std's growth policy (RawVec: amortised doubling, minimum non-zero capacity 4 for
# elements up to 1 KiB); it is tracked lazily from the largest length seen
def _cap_after(cap, need):
    if need <= cap:
        return cap
    return max(cap * 2, need, 4)


def _track_cap(v):
    if v.x is None:
        v.x = {'cap': 0}
    v.x['cap'] = _cap_after(v.x.get('cap', 0), len(v.f))
    return v.x['cap']


_push_orig = P['Vec::push']


def _push_cap(ex, a):
    r = _push_orig(ex, a)
    _track_cap(ex.deref(a[0]))
    return r


P['Vec::push'] = _push_cap


@prim('Vec::capacity')
def _(ex, a):
    return _track_cap(ex.deref(a[0]))


@prim('Vec::with_capacity')
def _(ex, a):
    _cap_check(ex, a[0], 'Vec')
    return Agg('Vec', [], x={'cap': _cidx(a[0])})


@prim('Vec::shrink_to_fit')
def _(ex, a):
    v = ex.deref(a[0])
    v.x = {'cap': len(v.f)}
    return UNIT()


@prim('Vec::shrink_to')
def _(ex, a):
    v = ex.deref(a[0])
    _track_cap(v)
    v.x['cap'] = max(len(v.f), min(v.x['cap'], _cidx(a[1])))
    return UNIT()


@prim('Vec::reserve', 'Vec::reserve_exact')
def _(ex, a):
    v = ex.deref(a[0])
    _track_cap(v)
    v.x['cap'] = _cap_after(v.x['cap'], len(v.f) + _cidx(a[1]))
    return UNIT()


# ------------------------------------------------------------------ more Option / Result combinators
@prim('Result::or_else')
def _(ex, a):
    if a[0].variant == 0:
        return a[0]
    return ex.call_closure(a[1], [a[0].f[0]])


@prim('Result::and_then')
def _(ex, a):
    if a[0].variant == 1:
        return a[0]
    return ex.call_closure(a[1], [a[0].f[0]])


@prim('Result::or')
def _(ex, a):
    if a[0].variant == 0:
        ex.drop(a[1])
        return a[0]
    ex.drop(a[0].f[0])
    return a[1]


@prim('Result::and')
def _(ex, a):
    if a[0].variant == 1:
        ex.drop(a[1])
        return a[0]
    ex.drop(a[0].f[0])
    return a[1]


@prim('Result::unwrap_or_else')
def _(ex, a):
    if a[0].variant == 0:
        return a[0].f[0]
    return ex.call_closure(a[1], [a[0].f[0]])


@prim('Result::unwrap_err', 'Result::expect_err')
def _(ex, a):
    if a[0].variant == 0:
        raise RustPanic('called `Result::unwrap_err()` on an `Ok` value')
    return a[0].f[0]


@prim('Result::as_ref', 'Result::as_mut')
def _(ex, a):
    r = ex.deref(a[0])
    return Agg('Result', [Ref(a[0].cell, tuple(a[0].path) + (('f', 0),))], r.variant)


@prim('Result::is_ok_and', 'Option::is_some_and')
def _(ex, a):
    ok = a[0].variant == (0 if a[0].kind == 'Result' else 1)
    if not ok:
        if a[0].f:
            ex.drop(a[0].f[0])
        return False
    return as_bool(ex, ex.call_closure(a[1], [a[0].f[0]]))


@prim('Result::map_or', 'Option::map_or')
def _(ex, a):
    ok = a[0].variant == (0 if a[0].kind == 'Result' else 1)
    if ok:
        ex.drop(a[1])
        return ex.call_closure(a[2], [a[0].f[0]])
    return a[1]


@prim('Option::map_or_else')
def _(ex, a):
    if a[0].variant == 1:
        return ex.call_closure(a[2], [a[0].f[0]])
    return ex.call_closure(a[1], [])


@prim('Option::or')
def _(ex, a):
    if a[0].variant == 1:
        ex.drop(a[1])
        return a[0]
    return a[1]


@prim('Option::or_else')
def _(ex, a):
    if a[0].variant == 1:
        return a[0]
    return ex.call_closure(a[1], [])


@prim('Option::and')
def _(ex, a):
    if a[0].variant == 0:
        ex.drop(a[1])
        return NONE()
    ex.drop(a[0].f[0])
    return a[1]


@prim('Option::filter')
def _(ex, a):
    if a[0].variant == 0:
        return a[0]
    c = Cell(a[0].f[0])
    if as_bool(ex, ex.call_closure(a[1], [Ref(c)])):
        return Some(c.v)
    ex.drop(c.v)
    return NONE()


@prim('Option::xor')
def _(ex, a):
    if a[0].variant == 1 and a[1].variant == 0:
        return a[0]
    if a[0].variant == 0 and a[1].variant == 1:
        return a[1]
    ex.drop(a[0])
    ex.drop(a[1])
    return NONE()


@prim('Option::zip')
def _(ex, a):
    if a[0].variant == 1 and a[1].variant == 1:
        return Some(Agg('tuple', [a[0].f[0], a[1].f[0]]))
    ex.drop(a[0])
    ex.drop(a[1])
    return NONE()


@prim('Option::get_or_insert_with')
def _(ex, a):
    o = ex.deref(a[0])
    if o.variant == 0:
        o.variant, o.f = 1, [ex.call_closure(a[1], [])]
    return Ref(a[0].cell, tuple(a[0].path) + (('f', 0),))


@prim('Option::insert')
def _(ex, a):
    o = ex.deref(a[0])
    if o.variant == 1:
        ex.drop(o.f[0])
    o.variant, o.f = 1, [a[1]]
    return Ref(a[0].cell, tuple(a[0].path) + (('f', 0),))


@prim('Option::replace')
def _(ex, a):
    o = ex.deref(a[0])
    old = Some(o.f[0]) if o.variant == 1 else NONE()
    o.variant, o.f = 1, [a[1]]
    return old


@prim('Option::unwrap_or_default', 'Result::unwrap_or_default')
def _(ex, a):
    ok = a[0].variant == (0 if a[0].kind == 'Result' else 1)
    if ok:
        return a[0].f[0]
    raise Unsupported('unwrap_or_default: default value of an unknown type')


@prim('Option::iter', 'Option::into_iter', '<Option as IntoIterator>::into_iter')
def _(ex, a):
    o = ex.deref_all(a[0]) if isinstance(a[0], Ref) else a[0]
    if isinstance(a[0], Ref):
        return Agg('VecIntoIter', [Ref(a[0].cell, tuple(a[0].path) + (('f', 0),))] if o.variant == 1 else [])
    return Agg('VecIntoIter', list(o.f) if o.variant == 1 else [])


@prim('Option::ok_or', 'Option::ok_or_else')
def _(ex, a):
    if a[0].variant == 1:
        if not (isinstance(a[1], Agg) and a[1].kind.startswith('{closure')):
            ex.drop(a[1])
        return Ok(a[0].f[0])
    if isinstance(a[1], Agg) and a[1].kind.startswith('{closure'):
        return Err(ex.call_closure(a[1], []))
    return Err(a[1])


@prim('Iterator::min', 'Iterator::max')
def _(ex, a):
    raise Unsupported('Iterator::min/max')


@prim('bool::then')
def _(ex, a):
    return Some(ex.call_closure(a[1], [])) if as_bool(ex, a[0]) else NONE()


@prim('bool::then_some')
def _(ex, a):
    if as_bool(ex, a[0]):
        return Some(a[1])
    ex.drop(a[1])
    return NONE()


@prim('Mutex::get_mut', 'RwLock::get_mut')
def _(ex, a):
    l = ex.deref(a[0])
    if l.x['poisoned']:
        return Err(Agg('PoisonError', [Ref(a[0].cell, tuple(a[0].path) + (('f', 0),))]))
    return Ok(Ref(a[0].cell, tuple(a[0].path) + (('f', 0),)))


@prim('Mutex::into_inner', 'RwLock::into_inner')
def _(ex, a):
    return Ok(a[0].f[0])


@prim('Mutex::is_poisoned', 'RwLock::is_poisoned')
def _(ex, a):
    return ex.deref(a[0]).x['poisoned']


@prim('Cell::new')
def _(ex, a):
    return Agg('CellV', [a[0]])


@prim('Cell::get')
def _(ex, a):
    return ex.copyval(ex.deref(a[0]).f[0])


@prim('Cell::set')
def _(ex, a):
    ex.deref(a[0]).f[0] = a[1]
    return UNIT()


@prim('Cell::replace')
def _(ex, a):
    c = ex.deref(a[0])
    old = c.f[0]
    c.f[0] = a[1]
    return old


@pattern(r'^<(Option|Result|tuple|Box|VecDeque|BinaryHeap|BTreeSet|BTreeMap|HashMap|HashSet|AHashMap|AHashSet|array|Reverse|PhantomData|bool|char|str|unit) as Clone>::clone$')
def _(ex, a):
    return clone_value(ex, ex.deref(a[0]))


@pattern(r'^<&.* as Clone>::clone$')
def _(ex, a):
    return ex.deref(a[0])


# ------------------------------------------------------------------ more iterator API
def _remaining_refs(ex, itref):
    """materialise the remaining items of an iterator (by repeated next)"""
    out = []
    while True:
        r = iter_next(ex, itref)
        if r.variant == 0:
            return out
        out.append(r.f[0])


@pattern(r'^<.* as Iterator>::rposition$')
def _(ex, a):
    it = ex.deref(a[0])
    if it.kind != 'SliceIter':
        raise Unsupported('rposition on ' + it.kind)
    r, pos, end = it.f
    v = ex.deref(r)
    n = len(v.f) if end is None else end
    f = Cell(a[1])
    for i in range(n - 1, pos - 1, -1):
        it.f[2] = i
        if as_bool(ex, ex.call_closure(Ref(f), [elem_ref(r, i)])):
            return Some(i - pos)
    return NONE()


@pattern(r'^<.* as DoubleEndedIterator>::rfind$')
def _(ex, a):
    f = Cell(a[1])
    while True:
        it = ex.deref(a[0])
        if it.kind != 'SliceIter':
            raise Unsupported('rfind on ' + it.kind)
        r = _slice_next_back(ex, it)
        if r.variant == 0:
            return r
        if as_bool(ex, ex.call_closure(Ref(f), [Ref(Cell(r.f[0]))])):
            return r


@pattern(r'^<.* as Iterator>::fold$')
def _(ex, a):
    c = Cell(a[0])
    acc = a[1]
    f = Cell(a[2])
    for x in _remaining_refs(ex, Ref(c)):
        acc = ex.call_closure(Ref(f), [acc, x])
    return acc


@pattern(r'^<.* as Iterator>::(sum|product)$')
def _(ex, a):
    c = Cell(a[0])
    items = [ex.deref_all(x) for x in _remaining_refs(ex, Ref(c))]
    tot = 0
    for x in items:
        tot = tot + x
    return tot


@pattern(r'^<.* as Iterator>::(max|min)$')
def _(ex, a):
    raise Unsupported('Iterator::max/min')


@pattern(r'^<.* as Iterator>::filter_map$')
def _(ex, a):
    return Agg('FilterMapIter', [a[0], a[1]])


@pattern(r'^<.* as Iterator>::find_map$')
def _(ex, a):
    f = Cell(a[1])
    while True:
        r = iter_next(ex, a[0])
        if r.variant == 0:
            return NONE()
        o = ex.call_closure(Ref(f), [r.f[0]])
        if o.variant == 1:
            return o


@pattern(r'^<.* as Iterator>::chain$')
def _(ex, a):
    other = a[1]
    if isinstance(other, Agg) and other.kind in ('Vec', 'VecDeque', 'array'):
        other = Agg('VecIntoIter', list(other.f))        # chain() takes any IntoIterator
    return Agg('ChainIter', [a[0], other, 0])


@pattern(r'^<.* as Iterator>::zip$')
def _(ex, a):
    return Agg('ZipIter', [a[0], a[1]])


@pattern(r'^<.* as Iterator>::take_while$')
def _(ex, a):
    return Agg('TakeWhileIter', [a[0], a[1], False])


@pattern(r'^<.* as Iterator>::skip_while$')
def _(ex, a):
    return Agg('SkipWhileIter', [a[0], a[1], False])


@pattern(r'^<.* as Iterator>::peekable$')
def _(ex, a):
    return Agg('PeekIter', [a[0], None])


@prim('Peekable::peek')
def _(ex, a):
    it = ex.deref(a[0])
    if it.f[1] is None:
        it.f[1] = iter_next(ex, Ref(a[0].cell, tuple(a[0].path) + (('f', 0),)))
    if it.f[1].variant == 0:
        return NONE()
    return Some(Ref(a[0].cell, tuple(a[0].path) + (('f', 1), ('f', 0))))


_iter_next_base = iter_next


def iter_next(ex, itref):          # noqa: F811  (extends the dispatcher above)
    it = ex.deref(itref)
    k = it.kind
    sub = lambda i: Ref(itref.cell, tuple(itref.path) + (('f', i),))
    if k == 'FilterMapIter':
        while True:
            r = iter_next(ex, sub(0))
            if r.variant == 0:
                return r
            o = ex.call_closure(sub(1), [r.f[0]])
            if o.variant == 1:
                return o
    if k == 'ChainIter':
        if it.f[2] == 0:
            r = iter_next(ex, sub(0))
            if r.variant == 1:
                return r
            it.f[2] = 1
        return iter_next(ex, sub(1))
    if k == 'ZipIter':
        r1 = iter_next(ex, sub(0))
        if r1.variant == 0:
            return r1
        r2 = iter_next(ex, sub(1))
        if r2.variant == 0:
            ex.drop(r1.f[0])
            return r2
        return Some(Agg('tuple', [r1.f[0], r2.f[0]]))
    if k == 'TakeWhileIter':
        if it.f[2]:
            return NONE()
        r = iter_next(ex, sub(0))
        if r.variant == 0:
            return r
        if as_bool(ex, ex.call_closure(sub(1), [Ref(Cell(r.f[0]))])):
            return r
        it.f[2] = True
        ex.drop(r.f[0])
        return NONE()
    if k == 'SkipWhileIter':
        while True:
            r = iter_next(ex, sub(0))
            if r.variant == 0 or it.f[2]:
                return r
            if not as_bool(ex, ex.call_closure(sub(1), [Ref(Cell(r.f[0]))])):
                it.f[2] = True
                return r
            ex.drop(r.f[0])
    if k == 'PeekIter':
        if it.f[1] is not None:
            r, it.f[1] = it.f[1], None
            return r
        return iter_next(ex, sub(0))
    return _iter_next_base(ex, itref)


ITER_KINDS.update({'FilterMapIter', 'ChainIter', 'ZipIter', 'TakeWhileIter', 'SkipWhileIter', 'PeekIter'})
# the generic dispatch pattern registered earlier looks iter_next up at call time through this module's globals
for _i, (_rx, _fn) in enumerate(PATTERN_PRIMS):
    if _rx.pattern == r'^<.* as Iterator>::next$':
        PATTERN_PRIMS[_i] = (_rx, lambda ex, a: iter_next(ex, a[0]))


# ------------------------------------------------------------------ integer methods (usize semantics: 0 .. 2^64-1)
_UMAX = (1 << 64) - 1


def _cint(x):
    if is_sym(x):
        raise Unsupported('integer method on a symbolic value')
    return x


@prim('num::saturating_sub')
def _(ex, a):
    return max(_cint(a[0]) - _cint(a[1]), 0)


@prim('num::saturating_add')
def _(ex, a):
    return min(_cint(a[0]) + _cint(a[1]), _UMAX)


@prim('num::saturating_mul')
def _(ex, a):
    return min(_cint(a[0]) * _cint(a[1]), _UMAX)


@prim('num::wrapping_sub')
def _(ex, a):
    return (_cint(a[0]) - _cint(a[1])) & _UMAX


@prim('num::wrapping_add')
def _(ex, a):
    return (_cint(a[0]) + _cint(a[1])) & _UMAX


@prim('num::checked_sub')
def _(ex, a):
    r = _cint(a[0]) - _cint(a[1])
    return Some(r) if r >= 0 else NONE()


@prim('num::checked_add')
def _(ex, a):
    r = _cint(a[0]) + _cint(a[1])
    return Some(r) if r <= _UMAX else NONE()


@prim('num::checked_mul')
def _(ex, a):
    r = _cint(a[0]) * _cint(a[1])
    return Some(r) if r <= _UMAX else NONE()


@prim('num::checked_div')
def _(ex, a):
    return NONE() if _cint(a[1]) == 0 else Some(_cint(a[0]) // a[1])


@prim('num::abs_diff')
def _(ex, a):
    return abs(_cint(a[0]) - _cint(a[1]))


@prim('num::pow')
def _(ex, a):
    r = _cint(a[0]) ** _cint(a[1])
    if r > _UMAX:
        raise RustPanic('attempt to multiply with overflow')
    return r


@prim('num::is_power_of_two')
def _(ex, a):
    x = _cint(a[0])
    return x > 0 and (x & (x - 1)) == 0


@prim('num::next_power_of_two')
def _(ex, a):
    x = max(_cint(a[0]), 1)
    return 1 << (x - 1).bit_length()


@prim('cmp::min', 'Ord::min', '<usize as Ord>::min', 'cmp::max', 'Ord::max', '<usize as Ord>::max')
def _(ex, a):
    raise Unsupported('min/max dispatch')


def _mk_minmax(ismax):
    def f(ex, a):
        x, y = a[0], a[1]
        if is_sym(x) or is_sym(y):
            c = ex.branch(x >= y)
            return (x if c else y) if ismax else (y if c else x)
        return max(x, y) if ismax else min(x, y)
    return f


for _n in ('cmp::max', 'Ord::max', '<usize as Ord>::max', '<i64 as Ord>::max'):
    P[_n] = _mk_minmax(True)
for _n in ('cmp::min', 'Ord::min', '<usize as Ord>::min', '<i64 as Ord>::min'):
    P[_n] = _mk_minmax(False)


# ------------------------------------------------------------------ size_hint and std's Vec::from_iter
def iter_size_hint(ex, itref):
    """lower bound as std would compute it; calls a user-defined size_hint of a gdsl iterator (its MIR) when there is one"""
    it = ex.deref(itref)
    k = it.kind
    sub = lambda i: Ref(itref.cell, tuple(itref.path) + (('f', i),))
    if k == 'SliceIter':
        r, pos, end = it.f
        n = len(ex.deref(r).f) if end is None else end
        return max(n - pos, 0)
    if k == 'VecIntoIter':
        return len(it.f)
    if k in ('MapIter', 'Enumerate', 'ClonedIter', 'RevIter', 'PeekIter'):
        return iter_size_hint(ex, sub(0))
    if k in ('FilterIter', 'FilterMapIter', 'TakeWhileIter', 'SkipWhileIter'):
        iter_size_hint(ex, sub(0))          # std asks the inner iterator for its upper bound
        return 0
    if k == 'HashIter':
        return len(it.f[1])
    if k.startswith(FLAVOURS):
        fl = k.split('::')[0]
        cands = ex.ix.methods.get((fl, k.split('::')[-1], 'size_hint'), [])
        if cands:
            r = ex.call_fn(cands[0][0], [itref])
            return r.f[0]
        return 0
    return 0


def std_collect(ex, itval):
    """alloc::vec::Vec::from_iter for a general iterator: first element, size_hint, then push with reserve on demand"""
    c = Cell(itval)
    r = iter_next(ex, Ref(c))
    if r.variant == 0:
        ex.drop(c.v)
        return []
    lower = iter_size_hint(ex, Ref(c))
    cap = max(4, lower + 1)
    out = [r.f[0]]
    while True:
        r = iter_next(ex, Ref(c))
        if r.variant == 0:
            break
        if len(out) == cap:
            lower = iter_size_hint(ex, Ref(c))
            cap = max(cap * 2, len(out) + lower + 1)
        out.append(r.f[0])
    ex.drop(c.v)
    return out


for _i, (_rx, _fn) in enumerate(PATTERN_PRIMS):
    if _rx.pattern == r'^<.* as Iterator>::collect$':
        PATTERN_PRIMS[_i] = (_rx, lambda ex, a: Agg('Vec', std_collect(ex, a[0])))


# ------------------------------------------------------------------ raw pointers of Rc / Arc (addresses are modelled as distinct integers)
def _addr(box):
    return 0x10000 + 64 * box.id


@prim('Rc::as_ptr', 'Arc::as_ptr', 'Weak::as_ptr')
def _(ex, a):
    return _addr(ex.deref(a[0]).box)


@prim('Rc::into_raw', 'Arc::into_raw')
def _(ex, a):
    # the strong count is NOT given back: the caller owns it through the raw pointer
    ex.raw_ptrs[_addr(a[0].box)] = a[0].box
    return _addr(a[0].box)


@prim('Rc::from_raw', 'Arc::from_raw')
def _(ex, a):
    b = getattr(ex, 'raw_ptrs', {}).get(a[0])
    if b is None:
        raise Unsupported('from_raw of an unknown address')
    return RcH(b)


@prim('Ordering::then_with')
def _(ex, a):
    if a[0].variant != 0:
        return a[0]
    return ex.call_closure(a[1], [])


@prim('ptr::eq')
def _(ex, a):
    x, y = a[0], a[1]
    if isinstance(x, Ref) and isinstance(y, Ref):
        return x.cell is y.cell and tuple(x.path) == tuple(y.path)
    return x == y


# ------------------------------------------------------------------ RefCell: whole-value operations
@prim('RefCell::replace')
def _(ex, a):
    rc = ex.deref(a[0])
    if rc.x['flag'] != 0:
        raise RustPanic('RefCell already borrowed')
    old = rc.f[0]
    rc.f[0] = a[1]
    return old


@prim('RefCell::take')
def _(ex, a):
    rc = ex.deref(a[0])
    if rc.x['flag'] != 0:
        raise RustPanic('RefCell already borrowed')
    old = rc.f[0]
    if isinstance(old, Agg) and old.kind == 'Option':
        rc.f[0] = NONE()
        return old
    raise Unsupported('RefCell::take of a non-Option value')


@prim('RefCell::swap')
def _(ex, a):
    x, y = ex.deref(a[0]), ex.deref(a[1])
    if x.x['flag'] != 0 or y.x['flag'] != 0:
        raise RustPanic('RefCell already borrowed')
    x.f[0], y.f[0] = y.f[0], x.f[0]
    return UNIT()


@prim('RefCell::into_inner')
def _(ex, a):
    return a[0].f[0]


@prim('RefCell::get_mut')
def _(ex, a):
    return Ref(a[0].cell, tuple(a[0].path) + (0,))


# ------------------------------------------------------------------ sorting: stable sorts by insertion; the *_unstable family
# additionally takes a free choice among the orders of each run of equal elements - std promises nothing about them
# ("may reorder equal elements"), and the current implementation does reorder them beyond ~20 elements.
def key_cmp(ex, x, y):
    """three-way comparison of two sort keys (ints, Strings of displayed concrete values, tuples, Reverse, gdsl values)"""
    if isinstance(x, Agg) and x.kind == 'Reverse':
        return key_cmp(ex, y.f[0], x.f[0])
    if isinstance(x, Agg) and x.kind in ('String', 'str'):
        def flat(s):
            out = ''
            for t in s.f:
                if isinstance(t, tuple) and t[0] == 'val':
                    if is_sym(t[1]):
                        raise Unsupported('ordering of strings with symbolic content')
                    out += str(t[1])
                elif isinstance(t, str):
                    out += t
                else:
                    raise Unsupported(f'ordering of string token {t!r}')
            return out
        a, b = flat(x), flat(y)
        return (a > b) - (a < b)
    if isinstance(x, Agg) and x.kind == 'tuple':
        for p, q in zip(x.f, y.f):
            c = key_cmp(ex, p, q)
            if c != 0:
                return c
        return 0
    if isinstance(x, (Agg, RcH)) or isinstance(x, Ref):
        return value_cmp(ex, Ref(Cell(x)), Ref(Cell(y)))
    return int_cmp(ex, x, y).variant


def _sort_impl(ex, sref, cmp3, unstable):
    base, off, n = _view(ex, sref)
    bl = ex.deref(base).f
    items = bl[off:off + n]
    out = []
    for it in items:
        j = len(out)
        while j > 0 and cmp3(it, out[j - 1]) < 0:
            j -= 1
        out.insert(j, it)
    if unstable and len(out) > 1:
        res, i = [], 0
        while i < len(out):
            j = i + 1
            while j < len(out) and cmp3(out[j], out[i]) == 0:
                j += 1
            run = out[i:j]
            while len(run) > 1:
                k = ex.choose(len(run), label='unstable-sort')
                res.append(run.pop(k))
            res += run
            i = j
        out = res
    bl[off:off + n] = out
    return UNIT()


def _keyed(ex, f):
    cache = {}

    def key(it):
        if id(it) not in cache:
            cache[id(it)] = (it, ex.call_closure(f, [Ref(Cell(it))]))
        return cache[id(it)][1]
    return lambda x, y: key_cmp(ex, key(x), key(y))


@prim('slice::sort_by_key', 'slice::sort_by_cached_key')
def _(ex, a):
    return _sort_impl(ex, a[0], _keyed(ex, a[1]), False)


@prim('slice::sort_unstable_by_key')
def _(ex, a):
    return _sort_impl(ex, a[0], _keyed(ex, a[1]), True)


def _by(ex, f):
    return lambda x, y: ex.call_closure(f, [Ref(Cell(x)), Ref(Cell(y))]).variant


@prim('slice::sort_by')
def _(ex, a):
    return _sort_impl(ex, a[0], _by(ex, a[1]), False)


@prim('slice::sort_unstable_by')
def _(ex, a):
    return _sort_impl(ex, a[0], _by(ex, a[1]), True)


def _plain(ex):
    return lambda x, y: value_cmp(ex, Ref(Cell(x)), Ref(Cell(y)))


P['slice::sort'] = lambda ex, a: _sort_impl(ex, a[0], _plain(ex), False)
P['slice::sort_unstable'] = lambda ex, a: _sort_impl(ex, a[0], _plain(ex), True)


# ------------------------------------------------------------------ derived comparison operators of gdsl's own types and of Option
def _derived_op(test):
    def fn(ex, a):
        r = value_partial_cmp(ex, a[0], a[1])
        return r.variant == 1 and test(r.f[0].variant)
    return fn


for _op, _t in (('lt', lambda v: v < 0), ('le', lambda v: v <= 0), ('gt', lambda v: v > 0), ('ge', lambda v: v >= 0)):
    pattern(r'^<(digraph|ungraph|sync_digraph|sync_ungraph)::node::(Node|Edge) as PartialOrd>::%s$' % _op)(_derived_op(_t))


def value_eq(ex, ra, rb):
    """PartialEq::eq of two values behind references, through gdsl's own impls for gdsl types"""
    x, y = ex.deref(ra), ex.deref(rb)
    while isinstance(x, Ref) and isinstance(y, Ref):
        ra, rb = x, y
        x, y = ex.deref(ra), ex.deref(rb)
    if isinstance(x, Agg) and x.kind == 'Option':
        if x.variant != y.variant:
            return False
        if x.variant == 0:
            return True
        return value_eq(ex, Ref(ra.cell, tuple(ra.path) + (('f', 0),)), Ref(rb.cell, tuple(rb.path) + (('f', 0),)))
    if isinstance(x, Agg) and x.kind.startswith(FLAVOURS):
        return as_bool(ex, ex.call(f'<{x.kind}<K, N, E> as PartialEq>::eq', [ra, rb]))
    if isinstance(x, Agg) and x.kind == 'tuple':
        return all(value_eq(ex, Ref(ra.cell, tuple(ra.path) + (('f', i),)), Ref(rb.cell, tuple(rb.path) + (('f', i),))) for i in range(len(x.f)))
    if isinstance(x, Agg):
        raise Unsupported('PartialEq::eq on ' + x.kind)
    return as_bool(ex, x == y)


@prim('<Option as PartialEq>::eq')
def _(ex, a):
    return value_eq(ex, a[0], a[1])


@prim('<Option as PartialEq>::ne')
def _(ex, a):
    return not value_eq(ex, a[0], a[1])


@prim('<K as ToString>::to_string', '<N as ToString>::to_string', '<E as ToString>::to_string', '<usize as ToString>::to_string',
      '<i64 as ToString>::to_string', '<&K as ToString>::to_string')
def _(ex, a):
    return Agg('String', _tokens(ex, a[0]))


@prim('String::clear')
def _(ex, a):
    ex.deref(a[0]).f[:] = []
    return UNIT()


@prim('String::len')
def _(ex, a):
    n = 0
    for t in ex.deref(a[0]).f:
        if isinstance(t, str):
            n += len(t)
        elif isinstance(t, tuple) and t[0] == 'val' and not is_sym(t[1]):
            n += len(str(t[1]))
        else:
            raise Unsupported('length of a string with symbolic content')
    return n


@prim('String::is_empty')
def _(ex, a):
    return not ex.deref(a[0]).f


def _items_of(ex, src):
    if isinstance(src, Agg) and src.kind in ITER_KINDS:
        return drain(ex, src)
    if isinstance(src, Agg) and src.kind in ('Vec', 'VecDeque', 'array'):
        return list(src.f)
    return drain(ex, P_into_iter(ex, src))


def P_into_iter(ex, v):
    for rx, fn in PATTERN_PRIMS:
        if rx.match('<X as IntoIterator>::into_iter'):
            return fn(ex, [v])
    raise Unsupported('into_iter')


@prim('<AHashSet as Extend>::extend', '<HashSet as Extend>::extend')
def _(ex, a):
    for it in _items_of(ex, a[1]):
        P['HashSet::insert'](ex, [a[0], it])
    return UNIT()


@prim('<AHashMap as Extend>::extend', '<HashMap as Extend>::extend')
def _(ex, a):
    for it in _items_of(ex, a[1]):
        P['HashMap::insert'](ex, [a[0], it.f[0], it.f[1]])
    return UNIT()


@prim('<VecDeque as Extend>::extend', 'VecDeque::extend')
def _(ex, a):
    ex.deref(a[0]).f.extend(_items_of(ex, a[1]))
    return UNIT()


@prim('<BinaryHeap as Extend>::extend', 'BinaryHeap::extend')
def _(ex, a):
    for it in _items_of(ex, a[1]):
        P['BinaryHeap::push'](ex, [a[0], it])
    return UNIT()


# ------------------------------------------------------------------ HashMap entry API
@prim('HashMap::entry', 'AHashMap::entry')
def _(ex, a):
    mp = ex.deref(a[0])
    return Agg('MapEntry', [a[0], a[1], _find(ex, mp, a[1])])


def _entry_slot(ex, e, make):
    mref, key, i = e.f
    mp = ex.deref(mref)
    if i < 0:
        mp.f.append(Agg('tuple', [key, make()]))
        i = len(mp.f) - 1
    return Ref(mref.cell, tuple(mref.path) + (('i', i), ('f', 1)))


@prim('Entry::or_insert')
def _(ex, a):
    return _entry_slot(ex, a[0], lambda: a[1])


@prim('Entry::or_insert_with')
def _(ex, a):
    return _entry_slot(ex, a[0], lambda: ex.call_closure(a[1], []))


@prim('Entry::or_default')
def _(ex, a):
    return _entry_slot(ex, a[0], lambda: 0)


@prim('Entry::and_modify')
def _(ex, a):
    mref, key, i = a[0].f
    if i >= 0:
        ex.call_closure(a[1], [Ref(mref.cell, tuple(mref.path) + (('i', i), ('f', 1)))])
    return a[0]


DROP_HOOKS['MapEntry'] = lambda ex, v: None


# a format is human readable (JSON) or not (CBOR): free choice, the same for the serialiser and the deserialiser of one run
def _human_readable(ex):
    if 'human_readable' not in ex.path_facts:
        ex.path_facts['human_readable'] = ex.choose(2, label='human-readable') == 0
    return ex.path_facts['human_readable']


@prim('<S as Serializer>::is_human_readable', '<D as Deserializer>::is_human_readable')
def _(ex, a):
    return _human_readable(ex)


# ------------------------------------------------------------------ std hashing outside the modelled containers
# A user's key type only promises k1 == k2 -> hash(k1) == hash(k2): the hash of a key is an uninterpreted function of
# the key, and two different keys may collide.
_HASH_FN = z3.Function('hash_of', z3.IntSort(), z3.IntSort(), z3.IntSort())


@prim('DefaultHasher::new', '<DefaultHasher as Default>::default', '<RandomState as BuildHasher>::build_hasher',
      'AHasher::default', '<AHasher as Default>::default')
def _(ex, a):
    return Agg('Hasher', [0])


@prim('<K as Hash>::hash', '<&K as Hash>::hash', '<usize as Hash>::hash', '<i64 as Hash>::hash', '<N as Hash>::hash', '<E as Hash>::hash')
def _(ex, a):
    h = ex.deref(a[1])
    v = ex.deref_all(a[0])
    if isinstance(v, Agg):
        raise Unsupported('hash of ' + v.kind)
    nv = _HASH_FN(h.f[0] if not isinstance(h.f[0], int) else z3.IntVal(h.f[0]), v if not isinstance(v, int) else z3.IntVal(v))
    ex.solver.add(nv >= 0, nv < 2 ** 64)
    h.f[0] = nv
    return UNIT()


@prim('<DefaultHasher as Hasher>::finish', '<AHasher as Hasher>::finish', '<H as Hasher>::finish')
def _(ex, a):
    return ex.deref(a[0]).f[0]


DROP_HOOKS['Hasher'] = lambda ex, v: None


# ------------------------------------------------------------------ a batch of further std operations (seeded rounds keep using new ones)
@prim('slice::get_unchecked', 'slice::get_unchecked_mut', 'Vec::get_unchecked', 'Vec::get_unchecked_mut')
def _(ex, a):
    base, off, n = _view(ex, a[0])
    i = _cidx(a[1])
    if i >= n:
        # undefined behaviour in the real program: reported as abnormal termination of the path
        raise RustPanic('UB: get_unchecked index out of bounds')
    return elem_ref(base, off + i)


@prim('Vec::drain', 'VecDeque::drain')
def _(ex, a):
    v = ex.deref(a[0])
    s, e = _range_bounds(ex, a[1], len(v.f))
    if s > e or e > len(v.f):
        raise RustPanic('drain range out of bounds')
    out = v.f[s:e]
    del v.f[s:e]
    return Agg('VecIntoIter', out)


@prim('Vec::split_off')
def _(ex, a):
    v = ex.deref(a[0])
    at = _cidx(a[1])
    if at > len(v.f):
        raise RustPanic('split_off: at > len')
    tail = v.f[at:]
    del v.f[at:]
    return Agg('Vec', tail)


@prim('Vec::extend_from_slice')
def _(ex, a):
    base, off, n = _view(ex, a[1])
    src = ex.deref(base).f[off:off + n]
    ex.deref(a[0]).f.extend(clone_value(ex, x) for x in src)
    return UNIT()


@prim('Vec::append')
def _(ex, a):
    src = ex.deref(a[1])
    ex.deref(a[0]).f.extend(src.f)
    src.f[:] = []
    return UNIT()


@prim('slice::split_first')
def _(ex, a):
    base, off, n = _view(ex, a[0])
    if n == 0:
        return NONE()
    return Some(Agg('tuple', [elem_ref(base, off), Ref(Cell(Agg('SliceView', [base, off + 1, off + n])))]))


@prim('slice::split_last')
def _(ex, a):
    base, off, n = _view(ex, a[0])
    if n == 0:
        return NONE()
    return Some(Agg('tuple', [elem_ref(base, off + n - 1), Ref(Cell(Agg('SliceView', [base, off, off + n - 1])))]))


@pattern(r'^<.* as Iterator>::(cloned|copied)$')
def _(ex, a):
    return Agg('MapIter', [a[0], PyFn(lambda ex, r: clone_value(ex, ex.deref(r)))])


def _extreme(ex, items, want_max, keyf=None):
    best = None
    for it in items:
        if best is None:
            best = it
            continue
        x, y = (keyf(it), keyf(best)) if keyf else (it, best)
        c = key_cmp(ex, x, y)
        # std: max returns the last maximal element, min the first minimal one
        if (c >= 0) if want_max else (c < 0):
            best = it
    return Some(best) if best is not None else NONE()


@pattern(r'^<.* as Iterator>::max$')
def _(ex, a):
    return _extreme(ex, drain(ex, a[0]), True)


@pattern(r'^<.* as Iterator>::min$')
def _(ex, a):
    return _extreme(ex, drain(ex, a[0]), False)


@pattern(r'^<.* as Iterator>::max_by_key$')
def _(ex, a):
    return _extreme(ex, drain(ex, a[0]), True, lambda it: ex.call_closure(a[1], [Ref(Cell(it))]))


@pattern(r'^<.* as Iterator>::min_by_key$')
def _(ex, a):
    return _extreme(ex, drain(ex, a[0]), False, lambda it: ex.call_closure(a[1], [Ref(Cell(it))]))


@pattern(r'^<.* as Iterator>::sum$')
def _(ex, a):
    t = 0
    for it in drain(ex, a[0]):
        t = t + ex.deref_all(it)
    return t


@pattern(r'^<.* as Iterator>::(flat_map)$')
def _(ex, a):
    out = []
    for it in drain(ex, a[0]):
        out.extend(_items_of(ex, ex.call_closure(a[1], [it])))
    return Agg('VecIntoIter', out)


@pattern(r'^<.* as Iterator>::(flatten)$')
def _(ex, a):
    out = []
    for it in drain(ex, a[0]):
        if isinstance(it, Agg) and it.kind == 'Option':
            if it.variant == 1:
                out.append(it.f[0])
        else:
            out.extend(_items_of(ex, it))
    return Agg('VecIntoIter', out)


@prim('VecDeque::clear', 'BinaryHeap::clear')
def _(ex, a):
    v = ex.deref(a[0])
    items = v.f[:]
    del v.f[:]
    for x in items:
        ex.drop(x)
    return UNIT()


@prim('VecDeque::contains')
def _(ex, a):
    v = ex.deref(a[0])
    for i in range(len(v.f)):
        if value_eq(ex, elem_ref(a[0], i), a[1]):
            return True
    return False


@prim('VecDeque::insert')
def _(ex, a):
    v = ex.deref(a[0])
    i = _cidx(a[1])
    if i > len(v.f):
        raise RustPanic('index out of bounds')
    v.f.insert(i, a[2])
    return UNIT()


@prim('VecDeque::remove')
def _(ex, a):
    v = ex.deref(a[0])
    i = _cidx(a[1])
    return Some(v.f.pop(i)) if i < len(v.f) else NONE()


@prim('VecDeque::truncate')
def _(ex, a):
    return P['Vec::truncate'](ex, a)


@prim('BinaryHeap::into_vec')
def _(ex, a):
    return Agg('Vec', list(a[0].f))


def _retain(ex, cref, keep):
    c = ex.deref(cref)
    out = []
    for ent in c.f[:]:
        if as_bool(ex, keep(ent)):
            out.append(ent)
        else:
            ex.drop(ent)
    c.f[:] = out
    return UNIT()


@prim('HashSet::retain', 'AHashSet::retain')
def _(ex, a):
    return _retain(ex, a[0], lambda ent: ex.call_closure(a[1], [Ref(Cell(ent.f[0]))]))


@prim('HashMap::retain', 'AHashMap::retain')
def _(ex, a):
    def keep(ent):
        c = Cell(ent)
        return ex.call_closure(a[1], [Ref(c, (('f', 0),)), Ref(c, (('f', 1),))])
    return _retain(ex, a[0], keep)


@prim('Weak::new')
def _(ex, a):
    return Agg('DeadWeak', [])


@prim('Rc::get_mut', 'Arc::get_mut')
def _(ex, a):
    h = ex.deref(a[0])
    if h.box.strong == 1 and h.box.weak == 1:
        return Some(Ref(h.box.cell))
    return NONE()


# ------------------------------------------------------------------ BinaryHeap::extend / append, as std does them
# extend pushes nothing one by one: it appends to the backing vector and then calls rebuild_tail(old_len), which
# either sifts the new elements up or re-heapifies bottom-up - the two lay out equal elements differently.
def _sift_down_range(ex, href, pos, end):
    d = ex.deref(href).f
    elt = d[pos]
    child = 2 * pos + 1
    while child <= max(end - 2, 0) and end >= 2:
        d[pos] = elt
        if _heap_le(ex, href, child, child + 1):
            child += 1
        # if hole.element() >= hole.get(child) { return }
        if _heap_le(ex, href, child, pos):
            d[pos] = elt
            return
        d[pos] = d[child]
        pos = child
        child = 2 * pos + 1
    d[pos] = elt
    if child == end - 1:
        # hole.element() < hole.get(child)
        if not _heap_le(ex, href, child, pos):
            d[pos], d[child] = d[child], elt


def _rebuild_tail(ex, href, start):
    d = ex.deref(href).f
    n = len(d)
    if start == n:
        return
    tail = n - start

    def log2_fast(x):
        return x.bit_length() - 1
    if start < tail:
        better = True
    elif n <= 2048:
        better = 2 * n < tail * log2_fast(start)
    else:
        better = 2 * n < tail * 11
    if better:
        k = n // 2
        while k > 0:
            k -= 1
            _sift_down_range(ex, href, k, n)
    else:
        for i in range(start, n):
            _sift_up(ex, href, 0, i)


def _heap_extend(ex, a):
    h = ex.deref(a[0])
    start = len(h.f)
    h.f.extend(_items_of(ex, a[1]))
    _rebuild_tail(ex, a[0], start)
    return UNIT()


P['<BinaryHeap as Extend>::extend'] = _heap_extend
P['BinaryHeap::extend'] = _heap_extend


@prim('BinaryHeap::append')
def _(ex, a):
    h, o = ex.deref(a[0]), ex.deref(a[1])
    if len(h.f) < len(o.f):
        h.f, o.f = o.f, h.f
    start = len(h.f)
    h.f.extend(o.f)
    o.f = []
    _rebuild_tail(ex, a[0], start)
    return UNIT()


@prim('<BinaryHeap as From>::from', '<BinaryHeap as FromIterator>::from_iter')
def _(ex, a):
    items = list(a[0].f) if isinstance(a[0], Agg) and a[0].kind in ('Vec', 'array') else _items_of(ex, a[0])
    c = Cell(Agg('BinaryHeap', items))
    k = len(items) // 2
    while k > 0:
        k -= 1
        _sift_down_range(ex, Ref(c), k, len(items))
    return c.v


# ------------------------------------------------------------------ ManuallyDrop and more raw-pointer plumbing
@prim('ManuallyDrop::new')
def _(ex, a):
    return Agg('ManuallyDrop', [a[0]])


@prim('<ManuallyDrop as Deref>::deref', '<ManuallyDrop as DerefMut>::deref_mut')
def _(ex, a):
    return Ref(a[0].cell, tuple(a[0].path) + (('f', 0),))


@prim('ManuallyDrop::into_inner')
def _(ex, a):
    return a[0].f[0]


@prim('ManuallyDrop::drop')
def _(ex, a):
    ex.drop(ex.deref(a[0]).f[0])
    return UNIT()


@prim('<ManuallyDrop as Clone>::clone')
def _(ex, a):
    return Agg('ManuallyDrop', [clone_value(ex, ex.deref(a[0]).f[0])])


DROP_HOOKS['ManuallyDrop'] = lambda ex, v: None        # the whole point: the wrapped value is not dropped


@prim('Weak::strong_count')
def _(ex, a):
    return ex.deref(a[0]).box.strong


@prim('Weak::weak_count')
def _(ex, a):
    b = ex.deref(a[0]).box
    return b.weak - 1 if b.strong > 0 else 0


def _as_ptr(ex, a):
    b = ex.deref(a[0]).box
    ex.raw_ptrs[_addr(b)] = b
    return _addr(b)


P['Rc::as_ptr'] = P['Arc::as_ptr'] = P['Weak::as_ptr'] = _as_ptr


# ------------------------------------------------------------------ integer ranges as iterators ((a..b).map(..), for i in a..b)
_iter_next_base2 = iter_next


def iter_next(ex, itref):          # noqa: F811
    it = ex.deref(itref)
    k = it.kind.split('::')[-1] if isinstance(it, Agg) else ''
    if k == 'Range' and len(it.f) == 2:
        lo, hi = _cidx(it.f[0]), _cidx(it.f[1])
        if lo < hi:
            it.f[0] = lo + 1
            return Some(lo)
        return NONE()
    if k == 'RangeInclusive' and len(it.f) >= 2:
        lo, hi = _cidx(it.f[0]), _cidx(it.f[1])
        if len(it.f) > 2 and it.f[2] is True:
            return NONE()
        if lo < hi:
            it.f[0] = lo + 1
            return Some(lo)
        if lo == hi:
            if len(it.f) > 2:
                it.f[2] = True
            else:
                it.f.append(True)
            return Some(lo)
        return NONE()
    return _iter_next_base2(ex, itref)


ITER_KINDS.update({'std::ops::Range', 'Range', 'std::ops::RangeInclusive', 'RangeInclusive', 'core::ops::Range'})
for _i, (_rx, _fn) in enumerate(PATTERN_PRIMS):
    if _rx.pattern == r'^<.* as Iterator>::next$':
        PATTERN_PRIMS[_i] = (_rx, lambda ex, a: iter_next(ex, a[0]))

DROP_HOOKS['IgnoredAny'] = lambda ex, v: None


@pattern(r'^<(digraph|ungraph|sync_digraph|sync_ungraph)::node::(Node|Edge) as PartialEq>::ne$')
def _(ex, a):
    return not value_eq(ex, a[0], a[1])


@pattern(r'^<.* as Iterator>::map_while$')
def _(ex, a):
    # map_while(f): yields f(x) while it is Some, ends at the first None
    out = []
    c = Cell(a[0])
    while True:
        r = iter_next(ex, Ref(c))
        if r.variant == 0:
            break
        o = ex.call_closure(a[1], [r.f[0]])
        if o.variant == 0:
            # std stops here; the rest of the underlying iterator is dropped with it
            for rest in drain(ex, c.v):
                ex.drop(rest)
            break
        out.append(o.f[0])
    return Agg('VecIntoIter', out)


@pattern(r'^<.*\{closure@.*\} as (Fn|FnMut|FnOnce)>::(call|call_mut|call_once)$')
def _(ex, a):
    # a closure value called through the Fn* traits (`let f = |..| ..; f(x)`)
    return ex.call_closure(a[0], a[1].f)


@prim('String::pop')
def _(ex, a):
    s = ex.deref(a[0])
    if not s.f:
        return NONE()
    t = s.f[-1]
    if isinstance(t, str):
        if len(t) > 1:
            s.f[-1] = t[:-1]
        else:
            s.f.pop()
        return Some(Agg('char', [t[-1]]))
    if isinstance(t, tuple) and t[0] == 'val' and not is_sym(t[1]):
        txt = str(t[1])
        s.f.pop()
        if len(txt) > 1:
            s.f.append(txt[:-1])
        return Some(Agg('char', [txt[-1]]))
    raise Unsupported('String::pop on symbolic content')


@pattern(r'^<.* as Iterator>::partition$')
def _(ex, a):
    yes, no = [], []
    for it in drain(ex, a[0]):
        (yes if as_bool(ex, ex.call_closure(a[1], [Ref(Cell(it))])) else no).append(it)
    return Agg('tuple', [Agg('Vec', yes), Agg('Vec', no)])


@prim('<F as FnMut>::call_mut', '<F as Fn>::call', '<F as FnOnce>::call_once', '<&mut F as FnMut>::call_mut',
      '<&mut F as FnOnce>::call_once', '<&F as Fn>::call')
def _(ex, a):
    # a generic closure parameter `f: F` called inside the crate (e.g. an Iterator::fold override)
    return ex.call_closure(a[0], a[1].f)


@prim('bool::then_some')
def _(ex, a):
    return Some(a[1]) if as_bool(ex, a[0]) else (ex.drop(a[1]) or NONE())


@prim('bool::then')
def _(ex, a):
    return Some(ex.call_closure(a[1], [])) if as_bool(ex, a[0]) else NONE()


@pattern(r'^<.* as Iterator>::try_for_each$')
def _(ex, a):
    # stops at the first Err / None / Break the closure returns, and returns it (takes &mut self)
    itref = a[0] if isinstance(a[0], Ref) else Ref(Cell(a[0]))
    c = Cell(ex.deref(itref)) if False else None
    res = None
    while True:
        r = iter_next(ex, itref)
        if r.variant == 0:
            break
        o = ex.call_closure(a[1], [r.f[0]])
        k = o.kind.split('::')[-1] if isinstance(o, Agg) else ''
        stop = (k == 'Result' and o.variant == 1) or (k == 'Option' and o.variant == 0) or (k == 'ControlFlow' and o.variant == 1)
        if stop:
            res = o
            break
    if res is not None:
        return res
    return Ok(UNIT())


@prim('mem::drop')
def _(ex, a):
    ex.drop(a[0])
    return UNIT()
