#!/usr/bin/env python3
"""Entry point: check.py <property id> [--tier quick|thorough] [--replay path]"""
import argparse
import os
import sys

sys.path.insert(0, os.path.dirname(os.path.abspath(__file__)))


def main():
    ap = argparse.ArgumentParser()
    ap.add_argument('prop')
    ap.add_argument('--tier', default=os.environ.get('VERIF_TIER', 'quick'))
    ap.add_argument('--replay')
    a = ap.parse_args()
    seed = int(os.environ.get('VERIF_SEED', '0') or 0)
    import props
    mod = props.REGISTRY.get(a.prop)
    if mod is None:
        print(f'unknown property {a.prop}')
        return 2
    if a.replay:
        return props.replay(a.prop, a.replay)
    import build
    import runner
    import engine
    mir, secs, cached = build.ensure_mir(hooks=getattr(mod, 'HOOKS', False))
    runner.G.ix = engine.load_index(mir, build.REPO)
    runner.G.prop = a.prop
    return mod.run(a.prop, a.tier, seed)


if __name__ == '__main__':
    try:
        rc = main()
    except SystemExit as e:
        if isinstance(e.code, str):         # sys.exit('INCONCLUSIVE: ...') from the build helpers: a message, not a verdict
            print(e.code)
            sys.exit(2)
        raise
    except BaseException as e:          # noqa  - an internal error of the machinery decides nothing: inconclusive, never 1
        import traceback
        traceback.print_exc()
        print(f'INCONCLUSIVE property={sys.argv[1] if len(sys.argv) > 1 else "?"}: internal error of the check: {e!r}'[:400])
        rc = 2
    sys.exit(rc)
