"""C12 (round trip) and C13 (untrusted documents), decided at the serde data-model boundary."""
import itertools

from logic import AND, OR, EQ, COUNT, MULTISET_EQ
from nodeops import canon_sequences, invariants
from searches import abnormal

DIRECTED = ('digraph', 'sync_digraph')
FLAVOURS = ('digraph', 'sync_digraph', 'ungraph', 'sync_ungraph')


# ------------------------------------------------------------------ C12
def c12_scenarios(flavour, n, max_edges, removals=False):
    for seq in canon_sequences(n, max_edges):
        nodes = [[i, {'s': f'n{i}'}] for i in range(n)]
        pre = [['connect', u, v, {'s': f'e{j}'}] for j, (u, v) in enumerate(seq)]
        for members in (tuple(range(n)),):
            steps = pre + [['g_new']] + [['g_insert', i] for i in members] + [['dump', 'lite'], ['g_roundtrip']]
            yield (flavour, 'roundtrip'), {'flavour': flavour, 'nodes': nodes, 'steps': steps,
                                           'meta': {'seq': seq, 'family': 'roundtrip'}}
            if not removals or not seq:
                continue
            # states reached through a removal: which half-edge of a pair went is invisible to the node API but
            # decides what the serialiser emits
            pairs = sorted({(u, v) for (u, v) in seq} | {(v, u) for (u, v) in seq})
            rems = [['disconnect', u, v] for (u, v) in pairs] + [['isolate', u] for u in sorted({x for p in seq for x in p})]
            for rem in rems:
                steps = pre + [rem] + [['g_new']] + [['g_insert', i] for i in members] + [['dump', 'lite'], ['g_roundtrip']]
                yield (flavour, 'roundtrip-after-removal'), {'flavour': flavour, 'nodes': nodes, 'steps': steps,
                                                             'meta': {'seq': seq, 'family': 'roundtrip', 'removal': rem}}


def c12_scale_up(finding):
    """native confirmation on a larger graph of the same kind (see runner.triage: escalate): 12 nodes, 60 edges with
    distinct values, every node with 5 outgoing edges, followed by the finding's own removal (if any) and round trip"""
    scen = finding['scen']
    n = 12
    nodes = [[i, 3 * i + 1] for i in range(n)]
    pre = [['connect', i, (i + d) % n, 100 * i + d] for i in range(n) for d in (1, 2, 3, 5, 7)]
    rem = [scen['meta']['removal']] if scen['meta'].get('removal') else []
    steps = pre + rem + [['g_new']] + [['g_insert', i] for i in range(n)] + [['dump', 'lite'], ['g_roundtrip']]
    yield {'flavour': scen['flavour'], 'nodes': nodes, 'steps': steps,
           'meta': {'seq': [[s[1], s[2]] for s in pre], 'family': 'roundtrip', 'scaled_from': scen['meta'].get('seq')}}


def evaluate_c12(prop, scen, obs, ctx):
    fl = scen['flavour']
    ab = abnormal(obs)
    if ab:
        return ab
    dump, rt = obs[-2], obs[-1]
    cs = []
    g2 = rt.get('graph2')
    if not isinstance(g2, list):
        return [(False, f'round trip failed: serialised {rt.get("doc")}, deserialisation gave {g2}', 'roundtrip-error')]
    cs.append((rt.get('cbor_same') is True, 'JSON and CBOR round trips give different graphs', 'cbor-differs'))
    cs.append((rt['len2'] == len(dump) and len(g2) == len(dump), f'round trip changed the member set: {len(dump)} members before, {rt["len2"]} after', 'members'))
    if len(g2) != len(dump):
        return cs
    for a, b in zip(dump, g2):
        k = a['key']
        cs.append((AND([EQ(a['key'], b['key']), EQ(a['value'], b['value'])]), f'node {k}: key/value changed in the round trip', 'node-value'))
        if fl in DIRECTED:
            cs.append((EQ(a['out'], b['out']), f'node {k}: outgoing edges {show(a["out"])} became {show(b["out"])}', 'edges'))
        else:
            cs.append((MULTISET_EQ([list(x) for x in a['adj']], [list(x) for x in b['adj']]),
                       f'node {k}: incident edges {show(a["adj"])} became {show(b["adj"])}', 'edges'))
    return cs


def show(l):
    return '[' + ', '.join(str(k) for k, _ in l) + ']'


def sig_c12(f):
    return {'flavour': f['scen']['flavour'], 'kind': f['kind']}


# ------------------------------------------------------------------ C13
def c13_docs(max_nodes, max_edges):
    keydom = (0, 1)            # declared keys are drawn from here (repeats allowed)
    epdom = (0, 1, 2)          # endpoints: one more than can be declared
    node_lists = [None, 'err']
    for l in range(max_nodes + 1):
        for ks in itertools.product(keydom, repeat=l):
            node_lists.append([[k, {'s': f'n{i}'}] for i, k in enumerate(ks)])
    edge_lists = [None, 'err']
    for l in range(max_edges + 1):
        for es in itertools.product(itertools.product(epdom, repeat=2), repeat=l):
            edge_lists.append([[u, v, {'s': f'e{i}'}] for i, (u, v) in enumerate(es)])
    for nl in node_lists:
        for el in edge_lists:
            if nl is None and el is not None:
                continue
            yield {'nodes': nl, 'edges': el}


def c13_announce_docs():
    """length-prefixed formats (CBOR): the header of the node list and / or the edge list announces 2^64-1 elements; the
    format delivers the elements that are there and then reports the end of the input"""
    for nodes in ([], [[0, {'s': 'n0'}]], [[0, {'s': 'n0'}], [1, {'s': 'n1'}]]):
        for edges in ([], [[0, 0, {'s': 'e0'}]]):
            if edges and not nodes:
                continue
            for ann in ({'nodes': 'huge'}, {'edges': 'huge'}, {'nodes': 'huge', 'edges': 'huge'}):
                yield {'nodes': nodes, 'edges': edges, 'announce': ann}


def c13_tail_docs():
    """documents that go on after the edge list: with a third element the format cannot parse (truncated / damaged
    tail: the error is reported on every further request) or with a well-formed third element"""
    for nodes in ([], [[0, {'s': 'n0'}], [1, {'s': 'n1'}]]):
        for edges in ([], [[0, 1, {'s': 'e0'}]], [[0, 2, {'s': 'e0'}]]):
            if edges and not nodes:
                continue
            for tail in ('err', 'extra'):
                yield {'nodes': nodes, 'edges': edges, 'tail': tail}


def c13_scenarios(flavour, max_nodes, max_edges):
    for doc in c13_tail_docs():
        yield (flavour, 'tail-' + doc['tail']), {'flavour': flavour, 'nodes': [], 'steps': [['g_deserialize', doc]],
                                                 'meta': {'family': 'untrusted'}}
    for doc in c13_announce_docs():
        yield (flavour, 'announced-length'), {'flavour': flavour, 'nodes': [], 'steps': [['g_deserialize', doc]],
                                              'meta': {'family': 'untrusted'}}
    for doc in c13_docs(max_nodes, max_edges):
        kind = 'err-injected' if 'err' in (doc['nodes'], doc['edges']) else 'document'
        yield (flavour, kind), {'flavour': flavour, 'nodes': [], 'steps': [['g_deserialize', doc]],
                                'meta': {'family': 'untrusted'}}


def evaluate_c13(prop, scen, obs, ctx):
    fl = scen['flavour']
    ab = abnormal(obs)
    if ab:
        return [(False, 'deserialisation ' + ab[0][1], 'abnormal')]
    doc = scen['steps'][-1][1]
    r = obs[-1]
    cs = []
    nodes = doc['nodes'] if isinstance(doc['nodes'], list) else []
    edges = doc['edges'] if isinstance(doc['edges'], list) else []
    declared = {row[0] for row in nodes}
    dangling = [(u, v) for u, v, _ in edges if u not in declared or v not in declared]
    injected = 'err' in (doc['nodes'], doc['edges'])
    if doc.get('announce'):
        # the input ends before the announced number of elements: an error, and certainly no panic / abort (checked above)
        return [(r['result'] == 'err', 'document whose list header announces 2^64-1 elements was accepted', 'announced-length-accepted')]
    if dangling and not injected:
        cs.append((r['result'] == 'err', f'document with an edge naming undeclared key(s) {dangling} was accepted', 'dangling-accepted'))
    if r['result'] != 'ok':
        return cs
    cs.append((r.get('cbor_same') is True, 'JSON and CBOR disagree on this document', 'cbor-differs'))
    ms = r.get('members')
    if ms is None:
        return cs
    cs.append((r['len'] == len(ms), f'len() = {r["len"]} but {len(ms)} members found by declared key', 'members'))
    for c, msg in invariants(fl, ms):
        cs.append((c, 'deserialised graph: ' + msg, 'invariant'))
    val = ctx.val
    for m in ms:
        cs.append((OR(AND([m['key'] == row[0], EQ(m['value'], val(row[1]))]) for row in nodes),
                   f'node {m["key"]} of the result does not come from the document', 'foreign-node'))
        lst = 'out' if fl in DIRECTED else 'adj'
        for (k, x) in m[lst]:
            if fl in DIRECTED:
                src = [val(e) for u, v, e in edges if u == m['key'] and v == k]
                have = [y for kk, y in m[lst] if kk == k]
            else:
                src = [val(e) for u, v, e in edges if (u == m['key'] and v == k) or (v == m['key'] and u == k)]
                if k == m['key']:
                    src = src + src          # a self-loop is listed twice by its node
                have = [y for kk, y in m[lst] if kk == k]
            c = COUNT(have, x) <= COUNT(src, x)
            cs.append((c, f'edge {m["key"]}->{k} of the result does not come from the document (or is duplicated)', 'foreign-edge'))
    return cs


def sig_c13(f):
    return {'flavour': f['scen']['flavour'], 'kind': f['kind']}


def run(prop, tier, seed):
    from scheck import scenario_check
    if prop == 'C12':
        items = []
        for fl in FLAVOURS:
            items += list(c12_scenarios(fl, 3, 4 if tier == 'quick' else 5))
            items += [it for it in c12_scenarios(fl, 3, 3 if tier == 'quick' else 4, removals=True) if it[0][1] == 'roundtrip-after-removal']
            if tier != 'quick':
                items += list(c12_scenarios(fl, 4, 3))
        return scenario_check(
            prop, tier, seed, items, evaluate_c12, sig_c12,
            bounds={'nodes': 3 if tier == 'quick' else '3 (<=5 edges), 4 (<=3 edges)', 'max_edges': 4 if tier == 'quick' else 5, 'symbolic': 'node values, edge values',
                    'free_choices': 'hash iteration order during serialisation', 'pre_histories': 'connect-only, and connect-only followed by one disconnect / isolate (<=3 edges, thorough 4)',
                    'level': 'serde data model: stub Serializer records the 2-tuple of sequences gdsl emits, stub SeqAccess hands it back',
                    'std_contract': 'slice::sort_unstable* may order equal elements in any way (free choice); a counterexample resting on that is confirmed natively on a 12-node / 60-edge variant, where std really reorders',
                    'outside': 'serde_json / serde_cbor byte formats (exercised natively on every validation scenario and replay, not encoded)'},
            assumptions=['a wire format transports the serde data model faithfully for integer keys and values',
                         'AHashMap modelled as association list with free iteration order', 'std models of engine A'],
            rule='work item = canonical connect sequence, all nodes members; executor paths = iteration orders; oracle compares the rebuilt graph with the original per node',
            expected_cells=[(fl, k) for fl in FLAVOURS for k in ('roundtrip', 'roundtrip-after-removal')], escalate=c12_scale_up)
    items = []
    for fl in FLAVOURS:
        items += list(c13_scenarios(fl, 3, 3) if tier == 'quick' else c13_scenarios(fl, 3, 4))
    cells = sorted({str(c) for c, _ in items})
    return scenario_check(
        prop, tier, seed, items, evaluate_c13, sig_c13,
        bounds={'node_list_length': 3, 'edge_list_length': 3 if tier == 'quick' else 4,
                'declared_key_domain': [0, 1], 'endpoint_domain': [0, 1, 2],
                'shapes': 'each list absent / present / replaced by an element the format reports as an error; list headers announcing 2^64-1 elements (size_hint of a length-prefixed format; natively a crafted CBOR header); documents that continue after the edge list with an unparsable (sticky error) or a well-formed third element',
                'symbolic': 'node values, edge values',
                'outside': 'byte-level truncation and mutation inside serde_json / serde_cbor (what they hand to visit_seq is what is enumerated here)'},
        assumptions=['formats call visit_seq with a SeqAccess yielding at most the two sequences, or an error'],
        rule='work item = document (node list with possibly repeated keys, edge list with possibly undeclared endpoints, absent or erroring elements); oracle: Err whenever an edge names an undeclared key; Ok graphs satisfy C01/C02 invariants and contain only nodes and edges of the document',
        expected_cells=cells)


def c15_items(tier):
    items = []
    for fl in ('digraph', 'ungraph'):
        for c, s in c12_scenarios(fl, 3, 2):
            items.append((('serde',) + c, s))
        for c, s in c13_scenarios(fl, 2, 1):
            items.append((('serde-untrusted',) + c, s))
    return items
