"""C08: transpose() == the same operation on the edge-reversed graph (differential self-composition).

Scenario: nodes 0..N-1 form G, nodes N..2N-1 (same keys) form G^R built by the same connect
sequence with endpoints swapped and the same symbolic values.  The configuration runs with
transpose() on G and without on G^R with the same filter F, node values and target.
"""
from logic import AND, OR, EQ
from nodeops import canon_sequences, used_nodes
from searches import abnormal, roots_for, targets_for, fmt

FLAVOURS = ('digraph', 'sync_digraph')


def configs():
    out = []
    for alg, prio in (('bfs', None), ('dfs', None), ('pfs', 'min'), ('pfs', 'max')):
        for mode in ('search', 'path', 'cycle'):
            out.append(('search', alg, prio, mode))
    for kind in ('pre', 'post'):
        for mode in ('nodes', 'edges'):
            out.append(('order', kind, None, mode))
    return out


REVERSED_BUILDER = ['method', 'transpose', 'target', 'prio']


def tie_shapes():
    """hub 0 with in-edges from 1, 2, 3 (one expansion discovers three nodes), and two of those three have an in-edge of
    their own, so that the order in which tied nodes leave the heap shows in the closure calls"""
    out = []
    for p1, p2 in ((1, 2), (1, 3), (2, 3)):
        for s1 in range(4):
            for s2 in range(4):
                if s1 != p1 and s2 != p2:
                    out.append([(1, 0), (2, 0), (3, 0), (s1, p1), (s2, p2)])
    return out


def fan_shapes():
    from collections import Counter
    from nodeops import simple_sequences
    out = []
    for q in simple_sequences(4, 4):
        ind = Counter(v for u, v in q if u != v)
        outd = Counter(u for u, v in q if u != v)
        if any(c >= 3 for c in ind.values()) or any(c >= 3 for c in outd.values()):
            out.append(q)
    return out


def scenarios(flavour, n, max_edges, methods, only=None, order=None, shapes=None, twice=False):
    for seq in (shapes if shapes is not None else canon_sequences(n, max_edges)):
        for cfg in configs():
            if only and not only(cfg):
                continue
            step, a, prio, mode = cfg
            symvals = (a == 'pfs')
            nodes = [[i % n, {'s': f'n{i % n}'} if symvals else 100 + (i % n)] for i in range(2 * n)]
            pre = []
            for j, (u, v) in enumerate(seq):
                pre.append(['connect', u, v, {'s': f'e{j}'}])
            for j, (u, v) in enumerate(seq):
                pre.append(['connect', n + v, n + u, {'s': f'e{j}'}])
            for root in roots_for(seq, n):
                # the target may be the root itself: transposed and plain search must then agree as well
                tgts = (targets_for(seq, n, root) + [root]) if (step == 'search' and mode in ('search', 'path')) else [None]
                for tgt in tgts:
                    for method in methods:
                        def spec(tr, off):
                            s = {'root': root + off, 'mode': mode, 'method': method, 'transpose': (2 if twice else True) if tr else False}
                            if step == 'search':
                                s['alg'] = a
                                s['target'] = None if tgt is None else tgt + off
                                if prio:
                                    s['prio'] = prio
                            else:
                                s['kind'] = a
                            if method == 'filter':
                                s['filter'] = {'s': 'F'}
                            if order and tr and step == 'search':
                                s['order'] = order          # builder calls of the transposed run in another order
                            if order and tr and step == 'order':
                                s['method_first'] = True
                            return s
                        scen = {'flavour': flavour, 'nodes': nodes,
                                'steps': pre + [['dump', 'lite'], [step, spec(True, 0)], [step, spec(False, n)]],
                                'meta': {'seq': seq, 'n': n, 'config': [step, a, prio, mode]}}
                        yield (flavour, step, a, prio, mode), scen


def evaluate(prop, scen, obs, ctx):
    ab = abnormal(obs)
    if ab:
        return ab
    n = scen['meta']['n']
    dump, t_out, r_out = obs[-3], obs[-2], obs[-1]
    cfg = scen['meta']['config']
    name = ' '.join(str(x) for x in cfg if x)
    cs = []
    cs.append((EQ(t_out['result'], r_out['result']),
               f'{name}: transpose() on G gives {show(t_out["result"])}, the plain operation on the reversed graph gives {show(r_out["result"])}', 'result-differs'))
    cs.append((EQ(t_out['calls'], r_out['calls']),
               f'{name}: closure call sequences differ: transposed {show(t_out["calls"])} vs reversed graph {show(r_out["calls"])}', 'calls-differ'))
    # direct statement: a transposed run hands over only reversed incoming edges, a plain run only outgoing ones
    key_idx = {}
    for i in range(n):
        key_idx[dump[i]['key']] = i
    for c in t_out['calls']:
        u, v, x = c[0], c[1], c[2]
        ents = dump[key_idx[u]]['in'] if u in key_idx else []
        cs.append((OR(AND([k == v, EQ(val, x)]) for k, val in ents),
                   f'{name}: transposed run handed over {u}->{v}, which is not a reversed incoming edge of {u}', 'follows-wrong-direction'))
    for c in r_out['calls']:
        u, v, x = c[0], c[1], c[2]
        ents = dump[n + key_idx[u]]['out'] if u in key_idx else []
        cs.append((OR(AND([k == v, EQ(val, x)]) for k, val in ents),
                   f'{name}: plain run handed over {u}->{v}, which is not an outgoing edge of {u}', 'follows-incoming'))
    return cs


def show(x):
    if isinstance(x, list) and x and isinstance(x[0], list):
        return fmt(x)
    return str(x)


def sig_of(f):
    cfg = f['scen']['meta']['config']
    return {'flavour': f['scen']['flavour'], 'alg': cfg[1], 'prio': cfg[2], 'mode': cfg[3], 'kind': f['kind']}


def run(prop, tier, seed):
    from scheck import scenario_check
    items = []
    m_f = 2 if tier == 'quick' else 3
    m_e = 3 if tier == 'quick' else 4
    for fl in FLAVOURS:
        items += list(scenarios(fl, 3, m_f, ('filter',)))
        items += list(scenarios(fl, 3, m_e, ('foreach',)))
        items += list(scenarios(fl, 3, m_f, ('none',)))
        # the builder calls in reverse order (closure, transpose, target, priority) must configure the same search
        items += list(scenarios(fl, 3, 2, ('none', 'foreach'), only=lambda c: c[0] == 'search', order=REVERSED_BUILDER))
        items += list(scenarios(fl, 3, 2, ('foreach', 'filter'), only=lambda c: c[0] == 'order', order=REVERSED_BUILDER))
        # transpose() called twice still configures a transposed run (it sets the direction, it does not toggle it)
        items += list(scenarios(fl, 3, 2, ('none', 'foreach'), twice=True))
        # a frontier of three nodes discovered from one expansion (ties among them): 4 nodes, a node with in- or out-degree 3
        items += list(scenarios(fl, 4, 4, ('none', 'foreach'), only=lambda c: c[1] == 'pfs', shapes=fan_shapes()))
        items += [it for it in scenarios(fl, 4, 5, ('foreach',), only=lambda c: c[1] == 'pfs' and c[3] in ('path', 'cycle'), shapes=tie_shapes())
                  if it[1]['steps'][-2][1]['root'] == 0 and it[1]['steps'][-2][1].get('target') in (None, 1)]
        # priority-first runs only differ from each other once two frontier nodes both lead on: 4 edges, symbolic node values
        items += [it for it in scenarios(fl, 3, m_e + 1, ('none',), only=lambda c: c[1] == 'pfs') if len(it[1]['meta']['seq']) == m_e + 1
                  and (tier != 'quick' or len(set(map(tuple, it[1]['meta']['seq']))) == m_e + 1)]      # quick: no parallel edges in this family
    cells = sorted({str(c) for c, _ in items})
    import kani_engine
    kr = kani_engine.KaniRun('edge_reverse_and_order')       # engine B: Edge::reverse on the compiled code
    return scenario_check(
        prop, tier, seed, items, evaluate, sig_of,
        bounds={'nodes': 3, 'max_edges_filter': m_f, 'max_edges_for_each': m_e, 'configurations': len(configs()), 'fan_family': 'priority-first configurations on 4-node simple graphs with a node of in- or out-degree 3 (<=4 edges)', 'builder_order': 'priority-target-transpose-closure, and the reverse on <=2-edge graphs', 'max_edges_pfs_plain': m_e + 1,
                'symbolic': 'edge values, node values (pfs), filter F shared by both runs',
                'outside': 'larger graphs; the 14 nominal configurations the API does not offer'},
        assumptions=['std models of engine A', 'the in-list of a node in G lists its edges in the order the out-list of the same node lists them in G^R (follows from C01/C03)',
                     'pure filters'],
        rule='work item = (connect sequence, one of the 16 configurations, root, target, method); both runs in one executor path, outputs compared term by term',
        expected_cells=cells, pre_finish=lambda rep, native: kani_engine.absorb(rep, native, kr, prop, 'rev'))
