"""C19: edges never own nodes - no leaks, no premature release.

Scenario: connect* ; [container with members] ; [a search / ordering whose result is kept] ;
          drop handles in a chosen order, observing the drop counters after every drop.
"""
import itertools

from logic import AND, EQ
from nodeops import canon_sequences, used_nodes
from searches import abnormal

DIRECTED = ('digraph', 'sync_digraph')
FLAVOURS = ('digraph', 'sync_digraph', 'ungraph', 'sync_ungraph')


def keepers(flavour, n):
    """steps producing a kept result (or none)"""
    out = [None]
    out.append(['search', {'alg': 'bfs', 'root': 0, 'target': 1, 'mode': 'path', 'method': 'none', 'transpose': False, 'keep': 'r'}])
    out.append(['search', {'alg': 'dfs', 'root': 0, 'target': 1, 'mode': 'search', 'method': 'none', 'transpose': False, 'keep': 'r'}])
    out.append(['search', {'alg': 'dfs', 'root': 0, 'target': None, 'mode': 'cycle', 'method': 'none', 'transpose': False, 'keep': 'r'}])
    out.append(['order', {'kind': 'pre', 'root': 0, 'mode': 'nodes', 'method': 'none', 'transpose': False, 'keep': 'r'}])
    out.append(['order', {'kind': 'post', 'root': 0, 'mode': 'edges', 'method': 'none', 'transpose': False, 'keep': 'r'}])
    out.append(['search', {'alg': 'pfs', 'prio': 'min', 'root': 0, 'target': None, 'mode': 'path', 'method': 'none', 'transpose': False, 'keep': 'r'}])
    out.append(['search', {'alg': 'pfs', 'prio': 'max', 'root': 0, 'target': 1, 'mode': 'search', 'method': 'none', 'transpose': False, 'keep': 'r'}])
    return out


def scenarios(flavour, n, max_edges, full_orders, queries=False, removes=False):
    for seq in canon_sequences(n, max_edges):
        nodes = [[i, 7 if queries else 100 + i] for i in range(n)]       # equal values: ties in pfs frontiers
        pre = [['connect', u, v, {'s': f'e{j}'}] for j, (u, v) in enumerate(seq)]
        for members, removed in [(m, r) for m in ((), (0, 1), tuple(range(n))) for r in (([None] + list(m)) if removes else [None])]:
            if removes and removed is None:
                continue
            gsteps = ([['g_new']] + [['g_insert', i] for i in members]) if members else []
            if removed is not None:
                gsteps = gsteps + [['g_remove', removed]]        # the container gives one member up (the result is dropped at once)
            for keep in (keepers(flavour, n) if not removes else [None]):
                handles = [('node', i) for i in range(n)]
                if members:
                    handles.append(('graph',))
                if keep is not None:
                    handles.append(('kept',))
                if full_orders:
                    orders = list(itertools.permutations(range(len(handles))))
                else:
                    # rotations and the reverse order: every handle is dropped first and last at least once
                    idx = list(range(len(handles)))
                    orders = [tuple(idx[r:] + idx[:r]) for r in range(len(idx))] + [tuple(reversed(idx))]
                for order in orders:
                    steps = pre + gsteps + ([keep] if keep else []) + ([['dump']] if queries else []) + [['drops']]
                    for h in order:
                        hd = handles[h]
                        if hd[0] == 'node':
                            steps.append(['drop', hd[1]])
                        elif hd[0] == 'graph':
                            steps.append(['drop_graph'])
                        else:
                            steps.append(['use_kept', 'r'])
                            steps.append(['drop_kept', 'r'])
                        steps.append(['drops'])
                    yield (flavour, 'members' if members else 'no-container', (keep[0] + ':' + keep[1]['mode'] if keep else 'no-result') + ('+queries' if queries else '')), {
                        'flavour': flavour, 'nodes': nodes, 'steps': steps,
                        'meta': {'seq': seq, 'members': list(members), 'n': n}}


def history_scenarios(flavour, length):
    """arbitrary short histories of edge operations on two bare nodes (removals and re-connections included), then the
    handles are dropped in every order: whatever an operation leaves behind must not keep a node alive"""
    n = 2
    ops = []
    for a in range(n):
        ops.append(['isolate', a])
        for b in range(n):
            ops += [['connect', a, b, None], ['try_connect', a, b, None], ['disconnect', a, b]]
    nodes = [[i, 100 + i] for i in range(n)]
    for k in range(1, length + 1):
        for hist in itertools.product(ops, repeat=k):
            if hist[0][0] in ('disconnect', 'isolate'):
                continue                      # nothing to remove yet: the same as the shorter history
            pre = []
            for j, o in enumerate(hist):
                pre.append([o[0], o[1], o[2], {'s': f'e{j}'}] if o[0] in ('connect', 'try_connect') else list(o))
            for order in ((0, 1), (1, 0)):
                steps = pre + [['drops']]
                for i in order:
                    steps += [['drop', i], ['drops']]
                yield (flavour, 'history', 'no-result'), {'flavour': flavour, 'nodes': nodes, 'steps': steps,
                                                        'meta': {'seq': [o[:3] for o in hist], 'members': [], 'n': n}}


def searched_scenarios(flavour, n, max_edges):
    """every kind of search and ordering runs from two roots and its result is dropped at once; then the handles are
    dropped: whatever a traversal leaves behind on the nodes must not keep any of them alive"""
    for seq in canon_sequences(n, max_edges):
        nodes = [[i, 100 + i] for i in range(n)]
        pre = [['connect', u, v, {'s': f'e{j}'}] for j, (u, v) in enumerate(seq)]
        runs = []
        for root, tgt in ((0, 1), (1, 0)):
            for alg in ('bfs', 'dfs', 'pfs'):
                for mode, t in (('path', tgt), ('search', tgt), ('cycle', None)):
                    sp = {'alg': alg, 'root': root, 'target': t, 'mode': mode, 'method': 'none', 'transpose': False}
                    if alg == 'pfs':
                        sp['prio'] = 'min'
                    runs.append(['search', sp])
            for kind in ('pre', 'post'):
                runs.append(['order', {'kind': kind, 'root': root, 'mode': 'edges', 'method': 'none', 'transpose': False}])
        idx = list(range(n))
        for order in [tuple(idx[r:] + idx[:r]) for r in range(n)] + [tuple(reversed(idx))]:
            steps = pre + runs + [['drops']]
            for i in order:
                steps += [['drop', i], ['drops']]
            yield (flavour, 'after-searches', 'no-result'), {'flavour': flavour, 'nodes': nodes, 'steps': steps,
                                                           'meta': {'seq': seq, 'members': [], 'n': n}}


def evaluate(prop, scen, obs, ctx):
    ab = abnormal(obs)
    if ab:
        return ab
    n = scen['meta']['n']
    steps = scen['steps']
    cs = []
    holders = {('node', i): {i} for i in range(n)}
    if scen['meta']['members']:
        holders[('graph',)] = set(scen['meta']['members'])
    for st, o in zip(steps, obs):
        op = st[0]
        if op in ('search', 'order') and st[1].get('keep'):
            res = o['result']
            held = set()
            if res is not None:
                if st[1]['mode'] in ('search',):
                    held = {res}
                elif st[1]['mode'] == 'nodes':
                    held = set(res)
                else:
                    for e in res:
                        held |= {e[0], e[1]}
            holders[('kept',)] = held
        elif op == 'g_remove':
            holders.get(('graph',), set()).discard(st[1])
        elif op == 'drop':
            holders.pop(('node', st[1]), None)
        elif op == 'drop_graph':
            holders.pop(('graph',), None)
        elif op == 'drop_kept':
            holders.pop(('kept',), None)
        elif op == 'use_kept':
            for k, v, deg in o:
                cs.append((EQ(v, scen['nodes'][k][1]), f'node {k} reached through a kept search result answers value {v}', 'kept-unusable'))
        elif op == 'drops':
            live = set()
            for h in holders.values():
                live |= h
            for i in range(n):
                if i in live:
                    cs.append((o[i] == 0, f'value of node {i} released {o[i]} time(s) while a handle to it is still held (holders {sorted(map(str, holders))})', 'premature-release'))
                elif not holders:
                    cs.append((o[i] == 1, f'all handles dropped but value of node {i} was released {o[i]} time(s)', 'leak' if o[i] == 0 else 'double-release'))
                else:
                    cs.append((o[i] <= 1, f'value of node {i} released {o[i]} times', 'double-release'))
    return cs


def sig_of(f):
    return {'flavour': f['scen']['flavour'], 'kind': f['kind']}


def run(prop, tier, seed):
    from scheck import scenario_check
    items = []
    for fl in FLAVOURS:
        if tier == 'quick':
            items += list(scenarios(fl, 3, 3, False))
            items += list(scenarios(fl, 3, 2, False, queries=True))
            items += list(history_scenarios(fl, 3))
            items += list(scenarios(fl, 3, 2, False, removes=True))
            items += list(searched_scenarios(fl, 3, 2))
        else:
            items += list(history_scenarios(fl, 4))
            items += list(scenarios(fl, 3, 3, False, removes=True))
            items += list(searched_scenarios(fl, 3, 3))
            items += list(scenarios(fl, 3, 4, False))
            items += list(scenarios(fl, 3, 3, False, queries=True))
            items += list(scenarios(fl, 3, 2, True))
    cells = sorted({str(c) for c, _ in items})
    return scenario_check(
        prop, tier, seed, items, evaluate, sig_of,
        bounds={'nodes': 3, 'max_edges': 3 if tier == 'quick' else 4,
                'queries_before_drops': 'variants in which every degree / predicate / lookup query runs on every node before the drops (<=2 edges, thorough 3)', 'node_values': 'distinct, and all equal (value ties in priority-first frontiers) in the query variants', 'handles': '3 node handles, optional container (members {0,1} or all), optional kept result of bfs path / dfs search / dfs cycle / preorder nodes / postorder edges / pfs min path / pfs max search',
                'histories_with_removals': 'every sequence of <=%d connect / try_connect / disconnect / isolate calls on two bare nodes, both drop orders' % (3 if tier == 'quick' else 4),
                'after_searches': 'bfs/dfs/pfs path, search and cycle plus pre/postorder run from two roots with their results dropped, then the handles are dropped (<=%d edges)' % (2 if tier == 'quick' else 3),
                'container_remove': 'a member is removed from the container (Graph::remove, result dropped) before the drops (<=%d edges)' % (2 if tier == 'quick' else 3),
                'drop_orders': 'rotations + reverse' if tier == 'quick' else 'rotations + reverse (<=4 edges), all permutations (<=2 edges)',
                'outside': 'more handles per node; results of pfs and of filtered searches; drop during a running traversal'},
        assumptions=['Rc/Arc/Weak counting semantics as documented by std (strong/weak counts, value dropped when strong reaches 0)',
                     'native replays observe releases through a drop-counting node payload type'],
        rule='work item = (connect sequence, container membership, kept result, drop order); after every drop the release counters of all node values are compared with the set of handles still held',
        expected_cells=cells, chunksize=16)
