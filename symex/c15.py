"""C15: sync flavours are drop-in replacements (self-composition plain vs sync on shared symbolic inputs)."""
import copy

from logic import EQ
import nodeops
import searches
from runner import abnormal_kind

PAIRS = {'digraph': 'sync_digraph', 'ungraph': 'sync_ungraph'}


def with_flavour(scen, fl):
    s = dict(scen)
    s['flavour'] = fl
    return s


def symrun(ex, scen):
    from driver import Driver
    d1 = Driver(ex, scen)
    ex.hash_record = []
    o1 = d1.run()
    picks = list(ex.hash_record)
    d2 = Driver(ex, with_flavour(scen, PAIRS[scen['flavour']]))
    ex.hash_replay = picks
    ex.hash_record = None
    o2 = d2.run()
    ex.hash_replay = None
    d1.ftable += d2.ftable
    return [o1, o2], d1


ORDER_DEP = ('g_scc', 'g_roundtrip', 'g_to_dot', 'g_to_dot_attr', 'g_iter', 'g_to_vec', 'g_roots', 'g_leaves', 'g_orphans')


def canon_native(step, o):
    """native runs of the two flavours cannot share the hash map's iteration order: compare order-free forms"""
    import json
    key = lambda x: json.dumps(x, sort_keys=True)
    if abnormal_kind(o) or o is None:
        return o
    op = step[0]
    if op == 'g_scc':
        return sorted((sorted(c) for c in o), key=key)
    if op in ('g_iter', 'g_to_vec', 'g_roots', 'g_leaves', 'g_orphans'):
        return sorted(o, key=key)
    if op in ('g_to_dot', 'g_to_dot_attr') and isinstance(o, str):
        return sorted(o.split('\n'))
    if op == 'g_roundtrip' and isinstance(o, dict) and isinstance(o.get('doc'), dict):
        o = dict(o)
        o['doc'] = {k: (sorted(v, key=key) if isinstance(v, list) else v) for k, v in o['doc'].items()}
        # the order in which the serialiser visits the members decides the order of the rebuilt incoming halves
        if isinstance(o.get('graph2'), list):
            g2 = []
            for nd in o['graph2']:
                nd = dict(nd)
                for lst in ('in', 'adj'):
                    if isinstance(nd.get(lst), list):
                        nd[lst] = sorted(nd[lst], key=key)
                g2.append(nd)
            o['graph2'] = g2
        return o
    return o


def canon_run(scen, obs):
    return [canon_native(st, o) for st, o in zip(scen['steps'], obs)]


def vcanon(scen, pair):
    """translator validation compares the order-free forms that natrun produces for order-dependent scenarios"""
    if any(st[0] in ORDER_DEP for st in scen['steps']) and isinstance(pair, list) and len(pair) == 2:
        return [canon_run(scen, pair[0]), canon_run(scen, pair[1])]
    return pair


def natrun(native, scen):
    other = with_flavour(scen, PAIRS[scen['flavour']])
    dep = any(st[0] in ORDER_DEP for st in scen['steps'])
    last = None
    for _ in range(24 if dep else 1):
        a, b = native.run([scen, other])
        last = [canon_run(scen, a), canon_run(scen, b)] if dep else [a, b]
        import json
        if json.dumps(last[0], sort_keys=True) != json.dumps(last[1], sort_keys=True):
            break
    return last


def evaluate(prop, scen, obs, ctx):
    o1, o2 = obs
    cs = []
    for i in range(max(len(o1), len(o2))):
        step = scen['steps'][i][0] if i < len(scen['steps']) else '?'
        if i >= len(o1) or i >= len(o2):
            cs.append((False, f'step {i} ({step}): one flavour stopped early ({len(o1)} vs {len(o2)} observations)', 'length'))
            break
        a, b = o1[i], o2[i]
        ka, kb = abnormal_kind(a), abnormal_kind(b)
        if ka or kb:
            cs.append(((ka is not None) == (kb is not None),
                       f'step {i} ({step}): {scen["flavour"]} gives {show(a)}, {PAIRS[scen["flavour"]]} gives {show(b)}', 'abnormal-differs'))
            break
        cs.append((EQ(norm(a), norm(b)), f'step {i} ({describe(scen["steps"][i])}): {scen["flavour"]} gives {show(a)}, {PAIRS[scen["flavour"]]} gives {show(b)}', 'result-differs'))
    return cs


def norm(o):
    """dict observations -> nested lists with a fixed key order so EQ can compare them"""
    if isinstance(o, dict):
        return [[k, norm(o[k])] for k in sorted(o)]
    if isinstance(o, (list, tuple)):
        return [norm(x) for x in o]
    return o


def show(o):
    s = str(o)
    return s if len(s) < 160 else s[:160] + '...'


def describe(st):
    if st[0] in ('search', 'order'):
        sp = st[1]
        return ' '.join(str(x) for x in (st[0], sp.get('alg') or sp.get('kind'), sp.get('prio'), sp.get('mode'),
                                       'transpose' if sp.get('transpose') else None, sp.get('method')) if x)
    return st[0]


def sig_of(f):
    scen = f['scen']
    last = scen['steps'][-1]
    sig = {'flavour': scen['flavour'], 'kind': f['kind'], 'step': last[0]}
    if last[0] in ('search', 'order'):
        sp = last[1]
        sig.update({'alg': sp.get('alg') or ('order-' + sp['kind']), 'mode': sp['mode'], 'transpose': bool(sp.get('transpose'))})
    elif 'meta' in scen and 'op' in scen['meta']:
        sig['op'] = scen['meta']['op']
    return sig


def items_for(tier):
    items = []
    m = 3 if tier == 'thorough' else 2
    for fl in PAIRS:
        directed = fl == 'digraph'
        for c, s in nodeops.scenarios(fl, 3, m):
            items.append((('node-op',) + c, s))
        for c, s in nodeops.scenarios(fl, 3, 2, provenance=True):
            items.append((('node-op-prov',) + c, s))
        trs = (False, True) if directed else (False,)
        for alg in ('bfs', 'dfs', 'pfs'):
            prios = ('min', 'max') if alg == 'pfs' else ('min',)
            items += searches.scen_target(fl, alg, 3, m + 1, ('none',), prios=prios, transposes=trs)
            items += searches.scen_target(fl, alg, 3, m, ('filter',), prios=prios, transposes=trs)
            items += searches.scen_notarget(fl, alg, 3, m + 1, ('foreach',), prios=prios, transposes=trs)
            items += searches.scen_cycle(fl, alg, 3, m + 1, ('none',), prios=prios, transposes=trs)
            items += searches.scen_cycle(fl, alg, 3, m, ('filter',), prios=prios, transposes=trs)
        items += searches.scen_order(fl, 3, m + 1, ('none', 'foreach'), transposes=trs)
        items += searches.scen_order(fl, 3, m, ('filter',), transposes=trs)
        if directed:
            # builder methods called in the opposite order, and transpose() called twice, must configure the same search in both flavours
            for alg in ('bfs', 'dfs', 'pfs'):
                items += searches.reordered(searches.scen_notarget(fl, alg, 3, 2, ('foreach',), transposes=(True,)))
                items += searches.scen_notarget(fl, alg, 3, 2, ('foreach',), transposes=(2,))
            items += searches.reordered(searches.scen_order(fl, 3, 2, ('foreach',), transposes=(True,)))
            items += searches.scen_order(fl, 3, 2, ('foreach',), transposes=(2,))
    # `==` on edges (parallel edges with different values, same and different endpoints)
    for fl in PAIRS:
        for seq in ([(0, 1), (0, 1)], [(0, 1), (0, 2)], [(0, 0), (0, 0)], [(0, 1), (1, 0)]):
            pre = [['connect', u, v, {'s': f'e{j}'}] for j, (u, v) in enumerate(seq)]
            cmps = [['edge_eq', 0, 0, 0, 0], ['edge_eq', 0, 0, 0, 1]] if seq[1][0] == 0 else [['edge_eq', 0, 0, 1, 0]]
            items.append((('edge-eq', fl), {'flavour': fl, 'nodes': [[i, 100 + i] for i in range(3)], 'steps': pre + cmps,
                                           'meta': {'family': 'edge-eq', 'seq': seq}}))
    import containers
    import serde_props
    items += containers.c15_items(tier)
    items += serde_props.c15_items(tier)
    return items


def run(prop, tier, seed):
    from scheck import scenario_check
    items = items_for(tier)
    cells = sorted({str(c) for c, _ in items})
    return scenario_check(
        prop, tier, seed, items, evaluate, sig_of,
        bounds={'nodes': 3, 'max_edges': '2 (thorough 3) with filter / node ops, one more without filter',
                'api': 'node operations and queries, handle provenance, bfs/dfs/pfs search, search_path, search_cycle, pre/postorder nodes and edges, with target / transpose / filter / for_each; container, scc and serde scenarios when containers.py provides them',
                'symbolic': 'edge values, node values, filter F shared by both flavours',
                'outside': 'API present in one flavour only (with_capacity, sizeof, to_dot_with_attr on sync_ungraph)'},
        assumptions=['std models of engine A; RwLock single-thread semantics', 'hash iteration order choices are shared by ordinal between the two runs'],
        rule='work item = scenario of the other checks, executed on the plain flavour and on the sync flavour in one executor path; every observation compared term by term (z3)',
        expected_cells=cells, symrun=symrun, natrun=natrun, vcanon=vcanon)
