"""Condition helpers working uniformly on python bools/ints and z3 terms."""
import z3


def is_sym(x):
    return isinstance(x, z3.ExprRef)


def AND(cs):
    cs = list(cs)
    if any(c is False for c in cs):
        return False
    cs = [c for c in cs if c is not True]
    if not cs:
        return True
    return z3.And(cs) if len(cs) > 1 else cs[0]


def OR(cs):
    cs = list(cs)
    if any(c is True for c in cs):
        return True
    cs = [c for c in cs if c is not False]
    if not cs:
        return False
    return z3.Or(cs) if len(cs) > 1 else cs[0]


def NOT(c):
    if isinstance(c, bool):
        return not c
    return z3.Not(c)


def EQ(a, b):
    if a is None or b is None:
        return a is None and b is None
    if isinstance(a, (list, tuple)) or isinstance(b, (list, tuple)):
        if not isinstance(a, (list, tuple)) or not isinstance(b, (list, tuple)) or len(a) != len(b):
            return False
        return AND(EQ(x, y) for x, y in zip(a, b))
    if isinstance(a, str) or isinstance(b, str):
        return a == b
    r = (a == b)
    if is_sym(r):
        r = z3.simplify(r)
        if z3.is_true(r):
            return True
        if z3.is_false(r):
            return False
    return r


def IMPLIES(a, b):
    return OR([NOT(a), b])


def COUNT(items, x):
    """number of items equal to x (python int or z3 Int)"""
    tot = 0
    for it in items:
        c = EQ(it, x)
        if c is True:
            tot = tot + 1
        elif c is False:
            pass
        else:
            tot = tot + z3.If(c, 1, 0)
    return tot


def MULTISET_EQ(a, b):
    """a, b lists of (possibly symbolic) scalars or tuples of them"""
    if len(a) != len(b):
        return False
    return AND(EQ(COUNT(a, x), COUNT(b, x)) for x in list(a) + list(b))


def removed(pre, post, n_removed, pred):
    """condition: post == pre with exactly n_removed entries deleted, each deleted entry e satisfying pred(e)
    (pred returns a condition); remaining entries in their old relative order."""
    if len(pre) - len(post) != n_removed:
        return False
    import itertools
    alts = []
    for idxs in itertools.combinations(range(len(pre)), n_removed):
        rest = [pre[i] for i in range(len(pre)) if i not in idxs]
        alts.append(AND([pred(pre[i]) for i in idxs] + [EQ(x, y) for x, y in zip(rest, post)]))
    return OR(alts)


def inserted(pre, post, n_ins, pred):
    return removed(post, pre, n_ins, pred)
