"""C04-C10: searches, cycles, callbacks, orderings.  Scenario: connect* ; dump ; search|order.

Oracles are evaluated on the traversal graph T read back through the node iterators
(out-lists, in-lists when transposed, adjacency lists for the undirected flavours) with the
filter's verdict fixed on every entry, so they do not depend on connect being right.
"""
import itertools

from logic import AND, OR, NOT, EQ, COUNT, MULTISET_EQ, is_sym
from nodeops import canon_sequences, simple_sequences, used_nodes

DIRECTED = ('digraph', 'sync_digraph')
FLAVOURS = ('digraph', 'sync_digraph', 'ungraph', 'sync_ungraph')


# ------------------------------------------------------------------ traversal graph
def tgraph(flavour, spec, dump):
    lst = ('in' if spec.get('transpose') else 'out') if flavour in DIRECTED else 'adj'
    return [[(k, v) for k, v in d[lst]] for d in dump]


def accept_matrix(fv, spec, T, keys):
    """fv(u, v, e) -> bool (may branch in the executor)"""
    if spec.get('method') != 'filter':
        return [[True] * len(row) for row in T]
    return [[fv(keys[i], k, v) for (k, v) in row] for i, row in enumerate(T)]


class TG:
    def __init__(self, T, acc, keys):
        self.T, self.acc, self.keys = T, acc, keys
        self.n = len(T)
        self.idx = {k: i for i, k in enumerate(keys)}
        self.adj = [[(self.idx[k], v) for (k, v), a in zip(row, ar) if a] for row, ar in zip(T, acc)]
        self.nbr = [sorted({j for j, _ in row}) for row in self.adj]

    def reach(self, r):
        seen = {r}
        st = [r]
        while st:
            u = st.pop()
            for v in self.nbr[u]:
                if v not in seen:
                    seen.add(v)
                    st.append(v)
        return seen

    def dist(self, r):
        d = {r: 0}
        q = [r]
        while q:
            u = q.pop(0)
            for v in self.nbr[u]:
                if v not in d:
                    d[v] = d[u] + 1
                    q.append(v)
        return d

    def has_edge(self, u, v, x):
        """condition: (u,v,x) is an accepted entry of T"""
        if u not in self.idx or v not in self.idx:
            return False
        return OR(EQ(x, val) for (j, val) in self.adj[self.idx[u]] if j == self.idx[v])

    def path_conds(self, edges, start, end, tag):
        """structure (concrete) + membership (solver) conditions for a chain of [u,v,e] edges"""
        cs = []
        if not edges:
            return [(False, f'{tag}: empty path', 'path-valid')]
        ok = edges[0][0] == self.keys[start] and edges[-1][1] == self.keys[end] and \
            all(edges[i][1] == edges[i + 1][0] for i in range(len(edges) - 1))
        cs.append((ok, f'{tag}: edges do not chain from the root to the target: {fmt(edges)}', 'path-valid'))
        for (u, v, x) in edges:
            cs.append((self.has_edge(u, v, x), f'{tag}: edge {u}->{v} of the result is not an existing accepted edge with that value', 'path-valid'))
        return cs


def fmt(edges):
    return '[' + ', '.join(f'{e[0]}->{e[1]}' for e in edges) + ']'


# ------------------------------------------------------------------ oracles
def abnormal(obs):
    last = obs[-1]
    if isinstance(last, dict) and len(last) == 1 and next(iter(last)) in ('panic', 'deadlock', 'hang'):
        k = next(iter(last))
        return [(False, f'search ended abnormally: {k}: {last[k]}', 'abnormal')]
    return None


def oracle_target(prop, g, spec, out):
    """C04/C05/C06 with a target other than the root"""
    root, tgt, res = spec['root'], spec['target'], out['result']
    alg, mode = spec['alg'], spec['mode']
    cs = []
    reachable = tgt in g.reach(root)
    cs.append(((res is not None) == reachable,
               f'{alg} {mode}: result is {"Some" if res is not None else "None"} but the target is {"" if reachable else "not "}reachable through accepted edges', 'reach-iff'))
    if res is None:
        return cs
    if mode == 'search':
        cs.append((EQ(res, g.keys[tgt]), f'{alg} search returned node {res}, not the target', 'target-node'))
        return cs
    cs += g.path_conds(res, root, tgt, f'{alg} search_path')
    if alg == 'bfs' and reachable:
        cs.append((len(res) == g.dist(root)[tgt], f'bfs search_path has {len(res)} edges, shortest is {g.dist(root).get(tgt)}', 'shortest'))
    if alg == 'dfs':
        nodes = [res[0][0]] + [e[1] for e in res]
        cs.append((len(set(nodes)) == len(nodes), f'dfs search_path visits a node twice: {fmt(res)}', 'simple'))
    return cs


def oracle_priority(g, spec, out, nodevals):
    """C06 expansion order from the closure log"""
    cs = []
    calls = out['calls']
    mx = spec.get('prio', 'min') == 'max'
    discovered = [spec['root']]
    expanded = []
    prev = None
    for c in calls:
        u = g.idx[c[0]]
        v = g.idx[c[1]]
        accepted = c[3] if len(c) > 3 else True
        if u != prev:
            # u starts expanding
            for d in discovered:
                if d != u and d not in expanded and len(g.T[d]) > 0:
                    cond = nodevals[d] <= nodevals[u] if mx else nodevals[d] >= nodevals[u]
                    cs.append((cond, f'pfs {"max" if mx else "min"}: node {g.keys[u]} starts expanding while discovered, unexpanded node {g.keys[d]} has a strictly {"larger" if mx else "smaller"} value', 'prio-order'))
            if u not in expanded:
                expanded.append(u)
            prev = u
        if accepted and v not in discovered:
            discovered.append(v)
    return cs


def oracle_callbacks(g_full, spec, out):
    """C07: for_each sees every edge leaving a reachable node exactly once"""
    exp = []
    for u in sorted(g_full.reach(spec['root'])):
        for (k, v) in g_full.T[u]:
            exp.append([g_full.keys[u], k, v])
    got = [c[:3] for c in out['calls']]
    what = spec.get('alg') or ('order-' + spec['kind'])
    return [(MULTISET_EQ(got, exp), f'{what}: for_each saw {len(got)} edges {fmt(got)}; edges leaving reachable nodes: {fmt(exp)}', 'callbacks')]


def oracle_cycle(flavour, g, spec, out):
    root, res, alg = spec['root'], out['result'], spec['alg']
    cs = []
    back = [v for v in g.nbr[root] if root in g.reach(v)]
    exists = len(back) > 0
    cs.append(((res is not None) == exists,
               f'{alg} search_cycle: result is {"Some" if res is not None else "None"} but a closed accepted path through the root {"exists" if exists else "does not exist"}', 'cycle-iff'))
    if res is None:
        return cs
    cs += g.path_conds(res, root, root, f'{alg} search_cycle')
    if flavour in DIRECTED:
        inter = [e[1] for e in res[:-1]]
        cs.append((len(set(inter)) == len(inter) and g.keys[root] not in inter,
                   f'{alg} search_cycle repeats an intermediate node: {fmt(res)}', 'cycle-simple'))
        # no edge used twice: count in result <= count among accepted entries, for every triple
        for (u, v, x) in res:
            if u in g.idx and v in g.idx:
                avail = [val for (j, val) in g.adj[g.idx[u]] if j == g.idx[v]]
                used = [e[2] for e in res if e[0] == u and e[1] == v]
                c = COUNT(used, x) <= COUNT(avail, x)
                cs.append((c if not isinstance(c, bool) else c, f'{alg} search_cycle uses edge {u}->{v} more often than it exists: {fmt(res)}', 'cycle-edge-twice'))
        if alg == 'bfs' and exists:
            best = min(1 + g.dist(v)[root] for v in back)
            cs.append((len(res) == best, f'bfs search_cycle has {len(res)} edges, the shortest cycle through the root has {best}', 'cycle-shortest'))
    return cs


def pre_ok(g, root, seq):
    if not seq or seq[0] != root:
        return False
    stack, seen = [root], {root}
    for x in seq[1:]:
        while stack and not [v for v in g.nbr[stack[-1]] if v not in seen]:
            stack.pop()
        if not stack or x not in g.nbr[stack[-1]] or x in seen:
            return False
        seen.add(x)
        stack.append(x)
    return True


def post_ok(g, root, seq):
    """is seq a finishing order of some DFS from root (exact, by search over neighbour choices)"""
    seq = list(seq)
    memo = set()

    def go(stack, seen, idx):
        key = (tuple(stack), frozenset(seen), idx)
        if key in memo:
            return False
        memo.add(key)
        if not stack:
            return idx == len(seq)
        u = stack[-1]
        un = [v for v in g.nbr[u] if v not in seen]
        if not un:
            if idx < len(seq) and seq[idx] == u:
                return go(stack[:-1], seen, idx + 1)
            return False
        for v in un:
            if go(stack + [v], seen | {v}, idx):
                return True
        return False
    return go([root], {root}, 0)


def oracle_order(g, spec, out):
    root, kind, mode, res = spec['root'], spec['kind'], spec['mode'], out['result']
    cs = []
    reach = g.reach(root)
    name = ('preorder' if kind == 'pre' else 'postorder') + ('' if not spec.get('transpose') else ' transposed')
    if mode == 'nodes':
        keys = res
    else:
        for (u, v, x) in res:
            cs.append((g.has_edge(u, v, x), f'{name} search_edges: {u}->{v} is not an existing accepted edge with that value', 'edges-valid'))
        tg = [e[1] for e in res]
        keys = ([g.keys[root]] + tg) if kind == 'pre' else (tg + [g.keys[root]])
    if any(k not in g.idx for k in keys):
        return cs + [(False, f'{name}: unknown node in result {keys}', 'order-perm')]
    seq = [g.idx[k] for k in keys]
    cs.append((sorted(seq) == sorted(reach), f'{name} {mode}: result {keys} is not exactly the reachable set {sorted(g.keys[i] for i in reach)} once each', 'order-perm'))
    if sorted(seq) == sorted(reach):
        if kind == 'pre':
            cs.append((pre_ok(g, root, seq), f'{name} {mode}: {keys} is not a depth-first discovery order', 'order-dfs'))
        else:
            cs.append((post_ok(g, root, seq), f'{name} {mode}: {keys} is not a depth-first finishing order', 'order-dfs'))
    return cs


def evaluate(prop, scen, obs, ctx, nodevals=None):
    """-> [(cond, msg, kind)].  ctx.fv(spec)(u,v,e): the filter's verdict (python bool)."""
    fl = scen['flavour']
    ab = abnormal(obs)
    if ab:
        return ab
    steps = scen['steps']
    spec = steps[-1][1]
    dump, out = obs[-2], obs[-1]
    keys = [d['key'] for d in dump]
    T = tgraph(fl, spec, dump)
    acc = accept_matrix(ctx.fv(spec), spec, T, keys)
    g = TG(T, acc, keys)
    if nodevals is None:
        nodevals = [d['value'] for d in dump]
    cs = []
    if steps[-1][0] == 'order':
        if spec.get('method') == 'foreach':
            cs += oracle_callbacks(g, spec, out)
        if prop in ('C10', 'C07', 'C08'):
            cs += oracle_order(g, spec, out)
        return cs
    mode = spec['mode']
    if spec.get('method') == 'foreach' and spec.get('target') is None and mode != 'cycle':
        cs += oracle_callbacks(g, spec, out)
    if mode == 'cycle':
        cs += oracle_cycle(fl, g, spec, out)
    elif spec.get('target') is not None:
        cs += oracle_target(prop, g, spec, out)
        if 'result2' in out:
            # a second run of the same search object must be as good as the first
            out2 = {'result': out['result2'], 'calls': out['calls2']}
            cs += [(c, 'second run of the same search object: ' + m, k) for c, m, k in oracle_target(prop, g, spec, out2)]
    if spec['alg'] == 'pfs' and spec.get('method') in ('filter', 'foreach'):
        cs += oracle_priority(g, spec, out, nodevals)
    return cs


# ------------------------------------------------------------------ scenarios
def graph_shapes(n_nodes, max_edges):
    return [seq for seq in canon_sequences(n_nodes, max_edges)]


def base(flavour, n_nodes, seq, sym_nodevals=False):
    nodes = [[i, {'s': f'n{i}'} if sym_nodevals else 100 + i] for i in range(n_nodes)]
    pre = [['connect', u, v, {'s': f'e{j}'}] for j, (u, v) in enumerate(seq)]
    return {'flavour': flavour, 'nodes': nodes, 'steps': pre + [['dump', 'lite']]}


def roots_for(seq, n_nodes):
    used = used_nodes(seq)
    return list(range(min(used + 1, n_nodes)))


def targets_for(seq, n_nodes, root):
    used = max(used_nodes(seq), root + 1)
    return [t for t in range(min(used + 1, n_nodes)) if t != root]


def with_step(b, kind, spec, meta):
    s = dict(b)
    s['steps'] = b['steps'] + [[kind, spec]]
    s['meta'] = meta
    return s


def scen_target(flavour, alg, n_nodes, max_edges, methods, modes=('path', 'search'), prios=('min',), transposes=(False,), shapes=None):
    for seq in (shapes if shapes is not None else graph_shapes(n_nodes, max_edges)):
        b = base(flavour, n_nodes, seq, sym_nodevals=(alg == 'pfs'))
        for root in roots_for(seq, n_nodes):
            for tgt in targets_for(seq, n_nodes, root):
                for method in methods:
                    for mode in modes:
                        for prio in prios:
                            for tr in transposes:
                                spec = {'alg': alg, 'root': root, 'target': tgt, 'mode': mode, 'method': method,
                                        'transpose': tr}
                                if alg == 'pfs':
                                    spec['prio'] = prio
                                if method == 'filter':
                                    spec['filter'] = {'s': 'F'}
                                yield (flavour, alg, mode, method), with_step(b, 'search', spec, {'seq': seq})


def scen_notarget(flavour, alg, n_nodes, max_edges, methods, prios=('min',), transposes=(False,), shapes=None, modes=('path',)):
    for seq in (shapes if shapes is not None else graph_shapes(n_nodes, max_edges)):
        b = base(flavour, n_nodes, seq, sym_nodevals=(alg == 'pfs'))
        for root in roots_for(seq, n_nodes):
            for method in methods:
                for prio in prios:
                    for tr in transposes:
                      for mode in modes:
                        spec = {'alg': alg, 'root': root, 'target': None, 'mode': mode, 'method': method, 'transpose': tr}
                        if alg == 'pfs':
                            spec['prio'] = prio
                        if method == 'filter':
                            spec['filter'] = {'s': 'F'}
                        yield (flavour, alg, 'notarget' if mode == 'path' else 'notarget-' + mode, method), with_step(b, 'search', spec, {'seq': seq})


def scen_cycle(flavour, alg, n_nodes, max_edges, methods, prios=('min',), transposes=(False,), shapes=None):
    for seq in (shapes if shapes is not None else graph_shapes(n_nodes, max_edges)):
        b = base(flavour, n_nodes, seq, sym_nodevals=(alg == 'pfs'))
        for root in roots_for(seq, n_nodes):
            for method in methods:
                for prio in prios:
                    for tr in transposes:
                        spec = {'alg': alg, 'root': root, 'target': None, 'mode': 'cycle', 'method': method, 'transpose': tr}
                        if alg == 'pfs':
                            spec['prio'] = prio
                        if method == 'filter':
                            spec['filter'] = {'s': 'F'}
                        yield (flavour, alg, 'cycle', method), with_step(b, 'search', spec, {'seq': seq})


def scen_order(flavour, n_nodes, max_edges, methods, kinds=('pre', 'post'), modes=('nodes', 'edges'), transposes=(False,), shapes=None):
    for seq in (shapes if shapes is not None else graph_shapes(n_nodes, max_edges)):
        b = base(flavour, n_nodes, seq)
        for root in roots_for(seq, n_nodes):
            for method in methods:
                for kind in kinds:
                    for mode in modes:
                        for tr in transposes:
                            spec = {'kind': kind, 'root': root, 'mode': mode, 'method': method, 'transpose': tr}
                            if method == 'filter':
                                spec['filter'] = {'s': 'F'}
                            yield (flavour, 'order-' + kind, mode, method), with_step(b, 'order', spec, {'seq': seq})


def large_shapes(count=40, n=12, extra=7, seed=20261005):
    """SAMPLED, not exhaustive: pseudo-random bushy graphs on n nodes (a random tree rooted at 0 whose nodes get up to four
    children, plus `extra` random edges).  They exist for size thresholds inside the implementation (small-buffer
    spills, capacity steps) that no graph within the exhaustive bounds can reach.  Fixed seed: the same shapes every run."""
    import random
    rnd = random.Random(seed)
    out = []
    for _ in range(count):
        seq = []
        kids = {0: 0}
        for v in range(1, n):
            cands = [u for u in range(v) if kids.get(u, 0) < 4]
            u = rnd.choice(cands[:3] if rnd.random() < 0.6 else cands)       # favour shallow parents: wide levels
            kids[u] = kids.get(u, 0) + 1
            kids[v] = 0
            seq.append((u, v))
        for _ in range(extra):
            u, v = rnd.randrange(n), rnd.randrange(n)
            seq.append((u, v))
        rnd.shuffle(seq)
        out.append(seq)
    return out


def scen_large(flavour, alg, modes=('path',)):
    for seq in large_shapes():
        n = 12
        b = base(flavour, n, seq)
        for mode in modes:
            for tgt in range(1, n):
                spec = {'alg': alg, 'root': 0, 'target': tgt, 'mode': mode, 'method': 'none', 'transpose': False}
                yield (flavour, alg, 'large-sampled', 'none'), with_step(b, 'search', spec, {'seq': seq})


def single_reject(items):
    """variants of unfiltered items in which a pure filter rejects exactly one edge of the graph (no branching:
    scales to larger graphs than the fully free filter)"""
    for cell, scen in items:
        seq = scen['meta']['seq']
        for j, (u, v) in enumerate(seq):
            s2 = dict(scen)
            steps = list(scen['steps'])
            kind, spec = steps[-1]
            sp = dict(spec)
            sp['method'] = 'filter'
            sp['filter'] = {'table': [[u, v, {'s': f'e{j}'}, False]], 'default': True}
            steps[-1] = [kind, sp]
            s2['steps'] = steps
            yield (cell[0], cell[1], cell[2], 'filter-one'), s2


REVERSED_BUILDER = ['method', 'transpose', 'target', 'prio']


def reordered(items):
    """the same scenarios with the builder methods called in the opposite order (closure first; priority / pre() /
    post() / transpose() last): the configuration must not depend on the order of the calls"""
    for cell, scen in items:
        kind, spec = scen['steps'][-1]
        sp = dict(spec)
        if kind == 'search':
            sp['order'] = REVERSED_BUILDER
        else:
            sp['method_first'] = True
        s2 = dict(scen)
        s2['steps'] = scen['steps'][:-1] + [[kind, sp]]
        yield (cell[0], cell[1], str(cell[2]) + '-reordered', cell[3]), s2


def with_repeat(items):
    """the same search object searched twice (legal for search_path and for pfs search: they take &mut self)"""
    for cell, scen in items:
        kind, spec = scen['steps'][-1]
        if spec['mode'] == 'path' or (spec['mode'] == 'search' and spec.get('alg') == 'pfs'):
            s2 = dict(scen)
            sp = dict(spec)
            sp['repeat'] = True
            s2['steps'] = scen['steps'][:-1] + [[kind, sp]]
            yield (cell[0], cell[1], cell[2] + '-twice', cell[3]), s2


def items_for(prop, tier):
    n = 3
    m = 3 if tier == 'quick' else 4
    mf = 3 if tier == 'quick' else 3          # filtered runs split on every examined edge
    items = []
    if prop == 'C04':
        for fl in FLAVOURS:
            items += scen_target(fl, 'bfs', n, m, ('none',))
            items += scen_target(fl, 'bfs', n, mf, ('filter',))
            items += with_repeat(scen_target(fl, 'bfs', n, 2, ('none', 'filter')))
            items += reordered(scen_target(fl, 'bfs', n, 2, ('filter',)))
            items += scen_large(fl, 'bfs')
    elif prop == 'C05':
        for fl in FLAVOURS:
            items += scen_target(fl, 'dfs', n, m, ('none',))
            items += scen_target(fl, 'dfs', n, mf, ('filter',))
            items += with_repeat(scen_target(fl, 'dfs', n, 2, ('none', 'filter')))
            items += reordered(scen_target(fl, 'dfs', n, 2, ('filter',)))
            items += scen_large(fl, 'dfs')
    elif prop == 'C06':
        for fl in FLAVOURS:
            items += scen_target(fl, 'pfs', n, mf, ('filter',), prios=('min', 'max'))
            items += scen_notarget(fl, 'pfs', n, m, ('foreach',), prios=('min', 'max'))
            items += scen_target(fl, 'pfs', n, mf, ('none',), prios=('min', 'max'))
            items += with_repeat(scen_target(fl, 'pfs', n, 2, ('none', 'filter'), prios=('min', 'max')))
            items += reordered(scen_target(fl, 'pfs', n, 2, ('filter',), prios=('min', 'max')))
            items += reordered(scen_notarget(fl, 'pfs', n, 2, ('foreach',), prios=('min', 'max')))
            if tier == 'quick':
                # two frontier nodes that both have edges to expand need 4 edges: the simple 4-edge shapes
                items += scen_notarget(fl, 'pfs', n, 4, ('foreach',), prios=('min', 'max'), shapes=[q for q in simple_sequences(3, 4, loops=True) if len(q) == 4])
    elif prop == 'C07':
        for fl in FLAVOURS:
            for alg in ('bfs', 'dfs', 'pfs'):
                # search() and search_path() run different loops in every algorithm: both without a target
                items += scen_notarget(fl, alg, n, m, ('foreach',), prios=('min', 'max') if alg == 'pfs' else ('min',), modes=('path', 'search'))
                items += scen_target(fl, alg, n, 2, ('filter',), modes=('path',))
                items += scen_cycle(fl, alg, n, 2, ('filter',))
            items += scen_order(fl, n, m, ('foreach',), modes=('nodes', 'edges'))
            items += scen_order(fl, n, 2, ('filter',), modes=('nodes', 'edges'))
    elif prop == 'C09':
        for fl in FLAVOURS:
            for alg in ('bfs', 'dfs', 'pfs'):
                items += scen_cycle(fl, alg, n, m, ('none',), prios=('min', 'max') if alg == 'pfs' else ('min',))
                items += scen_cycle(fl, alg, n, mf, ('filter',))
                items += reordered(scen_cycle(fl, alg, n, 2, ('filter',), prios=('min', 'max') if alg == 'pfs' else ('min',)))
    elif prop == 'C10':
        for fl in FLAVOURS:
            items += scen_order(fl, n, m, ('none',))
            items += scen_order(fl, n, mf, ('filter',))
            items += reordered(scen_order(fl, n, 2, ('filter',)))
    if prop == 'C10':
        # 4 nodes, <=4 edges, unfiltered node orders: cheap and needed for "third child" situations
        for fl in FLAVOURS:
            items += scen_order(fl, 4, 4, ('none',), modes=('nodes',), shapes=simple_sequences(4, 4) if tier == 'quick' else None)
    return items


def big_items_for(prop, tier):
    """thorough-tier families that are too large to materialise: a generator, streamed to the workers"""
    if tier != 'thorough' or prop not in ('C04', 'C05', 'C09', 'C10'):
        return
    s55 = simple_sequences(5, 5)
    s45f = simple_sequences(4, 4)
    for fl in FLAVOURS:
        if prop == 'C04':
            yield from scen_target(fl, 'bfs', 4, 4, ('none',), modes=('path',))
            yield from scen_target(fl, 'bfs', 5, 5, ('none',), modes=('path',), shapes=s55)
            yield from scen_target(fl, 'bfs', 4, 5, ('filter',), modes=('path',), shapes=s45f)
            if fl in DIRECTED:
                yield from single_reject(scen_target(fl, 'bfs', 4, 5, ('none',), modes=('path',), shapes=[q for q in simple_sequences(4, 5) if len(q) == 5]))
        elif prop == 'C05':
            yield from scen_target(fl, 'dfs', 4, 4, ('none',), modes=('path',))
            yield from scen_target(fl, 'dfs', 5, 5, ('none',), modes=('path',), shapes=s55)
        elif prop == 'C09':
            for alg in ('bfs', 'dfs'):
                yield from scen_cycle(fl, alg, 4, 4, ('none',))
            yield from scen_cycle(fl, 'bfs', 5, 5, ('none',), shapes=s55)
            if fl in DIRECTED:
                yield from scen_cycle(fl, 'bfs', 4, 5, ('filter',), shapes=simple_sequences(4, 5))
                for alg in ('bfs', 'dfs'):
                    yield from single_reject(scen_cycle(fl, alg, 4, 6, ('none',), shapes=[q for q in simple_sequences(4, 6) if len(q) >= 5]))
        elif prop == 'C10':
            yield from scen_order(fl, 5, 5, ('none',), modes=('nodes',), shapes=s55)


# ------------------------------------------------------------------ check driver
def sig_of(f):
    st = f['scen']['steps'][-1]
    spec = st[1]
    return {'flavour': f['scen']['flavour'], 'alg': spec.get('alg') or ('order-' + spec['kind']), 'mode': spec['mode'],
            'transpose': bool(spec.get('transpose')), 'kind': f['kind'],
            'prio': spec.get('prio') if spec.get('alg') == 'pfs' else None}


def run(prop, tier, seed):
    from scheck import scenario_check
    items = items_for(prop, tier)
    cells = sorted({str(c) for c, _ in items})
    pre_finish = None
    if prop == 'C06':
        import kani_engine
        kr = kani_engine.KaniRun('node_comparisons')         # engine B runs alongside the exploration
        pre_finish = lambda rep, native: kani_engine.absorb(rep, native, kr, prop, 'cmp')
    return scenario_check(
        prop, tier, seed, items, evaluate, sig_of,
        bounds={'nodes': 3, 'max_edges_unfiltered': 3 if tier == 'quick' else 4, 'max_edges_filtered': 3,
                'extra_families': ('C10: 4 nodes / <=4 edges unfiltered node orders (quick: simple digraphs only); ' if prop == 'C10' else '') + ('thorough: 4 nodes <=4 edges unfiltered; 5 nodes <=5 edges simple digraphs unfiltered; bfs with free filter on simple 4-node graphs (<=4 edges paths, <=5 edges cycles, directed); single-rejected-edge filters on simple 4-node graphs with 5 (paths) and 5-6 (cycles) edges, directed' if tier == 'thorough' else ''),
                'symbolic': 'edge values, node values (pfs), filter = uninterpreted F(u,v,e) split on every examined edge',
                'sampled_large_graphs': 'C04/C05 additionally run 40 fixed pseudo-random 12-node graphs (19 edges, root 0, every target, unfiltered): SAMPLED, not exhaustive - they exist for size thresholds inside the implementation that no graph within the exhaustive bounds can reach',
                'outside': 'larger graphs (beyond the sampled family above); impure filters; node values changing during a search'},
        assumptions=['std models of engine A incl. AHashSet (association list), VecDeque, BinaryHeap (std sift-up / sift-down-to-bottom), validated differentially on every run',
                     'rustc MIR dump is what gets compiled', 'filters are pure functions of (source key, target key, value)',
                     'keys are distinct concrete integers; relabelling invariance'],
        rule='work item = (canonical connect sequence, root, target, configuration); executor paths split on filter verdicts and value comparisons; oracles (reachability, BFS distance, DFS order recognisers) run on the graph read back through the node iterators',
        expected_cells=cells, pre_finish=pre_finish, stream=(lambda: big_items_for(prop, tier)) if tier == 'thorough' else None)
