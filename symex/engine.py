"""gdsl-symex: symbolic executor for rustc MIR text dumps (rustc 1.95), Python + z3.

Heap shape is concrete on every path; data (keys where stated, node values, edge
values, filter outcomes) are z3 terms.  Nondeterminism (symbolic branches, hash
iteration order, schedules) goes through Exec.choose and is explored depth-first
by deterministic re-execution from a decision prefix.
"""
import os
import re
import sys
import threading
import time

import z3

from mirparse import parse_dump, Place, Operand, Rvalue, Func, split_top, match_close

FLAVOURS = ('digraph', 'sync_digraph', 'ungraph', 'sync_ungraph')
sys.setrecursionlimit(20000)
threading.stack_size(64 * 1024 * 1024)


# ------------------------------------------------------------------ values
class Uninit:
    def __repr__(self):
        return 'UNINIT'


UNINIT = Uninit()


class Cell:
    __slots__ = ('v',)

    def __init__(self, v=UNINIT):
        self.v = v


class Agg:
    """struct / tuple / enum / closure / modelled std container"""
    __slots__ = ('kind', 'variant', 'f', 'x')

    def __init__(self, kind, f, variant=None, x=None):
        self.kind, self.f, self.variant, self.x = kind, f, variant, x

    def __repr__(self):
        return f'{self.kind}#{self.variant}{self.f}' if self.variant is not None else f'{self.kind}{self.f}'


class RcBox:
    __slots__ = ('cell', 'strong', 'weak', 'id', 'dropped', 'arc')

    def __init__(self, v, id_, arc=False):
        self.cell, self.strong, self.weak, self.id, self.dropped, self.arc = Cell(v), 1, 1, id_, 0, arc


class RcH:
    __slots__ = ('box',)

    def __init__(self, box):
        self.box = box

    def __repr__(self):
        return f'Rc@{self.box.id}'


class WeakH:
    __slots__ = ('box',)

    def __init__(self, box):
        self.box = box

    def __repr__(self):
        return f'Weak@{self.box.id}'


class Ref:
    __slots__ = ('cell', 'path')

    def __init__(self, cell, path=()):
        self.cell, self.path = cell, path

    def __repr__(self):
        return f'&{id(self.cell) % 10000}{list(self.path)}'


class PyFn:
    """harness-provided closure (stands for a `&mut dyn FnMut` / `&dyn Fn` argument)"""

    def __init__(self, fn):
        self.fn = fn


class RustPanic(Exception):
    pass


class Deadlock(Exception):
    pass


class Unsupported(Exception):
    pass


class Infeasible(Exception):
    pass


class Budget(Exception):
    pass


def is_sym(x):
    return isinstance(x, z3.ExprRef)


def Some(v):
    return Agg('Option', [v], 1)


def NONE():
    return Agg('Option', [], 0)


def Ok(v):
    return Agg('Result', [v], 0)


def Err(v):
    return Agg('Result', [v], 1)


def UNIT():
    return Agg('tuple', [])


# ------------------------------------------------------------------ name handling
def strip_generics(s: str) -> str:
    out, i, n = [], 0, len(s)
    while i < n:
        c = s[i]
        if c == '-' and s[i + 1:i + 2] == '>':
            out.append('->')
            i += 2
            continue
        if c == '<':
            e = match_close(s, i)
            if len(out) >= 2 and out[-1] == ':' and out[-2] == ':':
                del out[-2:]
            i = e + 1
            continue
        out.append(c)
        i += 1
    return ''.join(out)


def split_as(inner: str):
    """split 'T as Trait<..>' at the top-level ' as ' -> (T, Trait) or (inner, None)"""
    depth, i, n = 0, 0, len(inner)
    while i < n:
        ch = inner[i]
        if ch == '-' and inner[i + 1:i + 2] == '>':
            i += 2
            continue
        if ch in '([<{':
            depth += 1
        elif ch in ')]>}':
            depth -= 1
        elif depth == 0 and inner.startswith(' as ', i):
            return inner[:i], inner[i + 4:]
        i += 1
    return inner, None


def type_head(t: str) -> str:
    """'&mut std::vec::Vec<..>' -> '&Vec' ; crate types keep their full path."""
    t = t.strip()
    pre = ''
    while True:
        if t.startswith('&'):
            pre += '&'
            t = t[1:].strip()
            m = re.match(r"'\w+\s+", t)
            if m:
                t = t[m.end():]
            if t.startswith('mut '):
                t = t[4:]
            continue
        if t.startswith('*const '):
            pre += '*'
            t = t[7:]
            continue
        if t.startswith('*mut '):
            pre += '*'
            t = t[5:]
            continue
        break
    if t.startswith('<'):
        # associated type projection <S as Serializer>::Ok
        e = match_close(t, 0)
        a, b = split_as(t[1:e])
        return pre + 'assoc'
    h = strip_generics(t).strip()
    if h.startswith(FLAVOURS) or h.startswith('error::') or h.startswith('{closure@'):
        return pre + h
    if h.startswith('['):
        return pre + 'slice'
    if h.startswith('('):
        return pre + 'tuple'
    if h.startswith('dyn '):
        return pre + 'dyn'
    return pre + h.split('::')[-1]


def normalize_callee(c: str) -> str:
    c = c.strip()
    if c.startswith('<'):
        e = match_close(c, 0)
        inner = c[1:e]
        rest = strip_generics(c[e + 1:])
        a, b = split_as(inner)
        if b is not None:
            return f'<{type_head(a)} as {strip_generics(b).split("::")[-1]}>{rest}'
        return f'<{type_head(a)}>{rest}'
    s = strip_generics(c)
    s = re.sub(r'core::slice::', 'slice::', s)
    if s.startswith(FLAVOURS) or s.startswith('error::'):
        return s
    parts = s.split('::')
    return '::'.join(parts[-2:]) if len(parts) >= 2 else s


# ------------------------------------------------------------------ function index
class FnIndex:
    def __init__(self, funcs, srcroot, crate_prefix=''):
        self.funcs = funcs
        self.srcroot = srcroot
        self.by_norm = {}
        self.methods = {}          # (flavour, TypeLast, method) -> [(Func, trait, selfhead)]
        self.closures = {}         # closure type text -> Func
        self.enums = {}            # (flavour, EnumLast) -> [variant names]
        self._src = {}
        self._cache = {}
        for name, f in funcs.items():
            if '{closure#' in name:
                if f.params:
                    ct = f.params[0][1].strip()
                    ct = re.sub(r"^&('?\w+\s+)?(mut\s+)?", '', ct)
                    self.closures[ct] = f
                continue
            m = re.search(r'<impl at ([^:>]+):(\d+):(\d+): (\d+):(\d+)>::(\w+)$', name)
            if m:
                file, l1, method = m.group(1), int(m.group(2)), m.group(6)
                trait, selfty = self._impl_header(file, l1, int(m.group(3)), f)
                flavour = name.split('::')[0]
                f.impl_trait, f.impl_self = trait, selfty
                self.methods.setdefault((flavour, selfty.lstrip('&').split('::')[-1], method), []).append(
                    (f, trait, selfty))
            else:
                self.by_norm[strip_generics(name)] = f

    def add(self, other_funcs):
        """add functions of a probe crate (free functions and closures only)"""
        for name, f in other_funcs.items():
            self.funcs[name] = f
            if '{closure#' in name:
                if f.params:
                    ct = f.params[0][1].strip()
                    ct = re.sub(r"^&('?\w+\s+)?(mut\s+)?", '', ct)
                    self.closures[ct] = f
            else:
                self.by_norm[strip_generics(name)] = f

    def _lines(self, file):
        if file not in self._src:
            self._src[file] = open(os.path.join(self.srcroot, file)).read().split('\n')
        return self._src[file]

    def _impl_header(self, file, line, col, f):
        lines = self._lines(file)
        txt = ' '.join(lines[line - 1:line + 8])[col - 1:] if line - 1 < len(lines) else ''
        if txt.startswith('unsafe '):
            txt = txt[7:]
        if txt.startswith('impl'):
            t = txt[4:].lstrip()
            if t.startswith('<'):
                t = t[match_close(t, 0) + 1:].lstrip()
            hdr = re.split(r'\bwhere\b|\{', t)[0].strip()
            if ' for ' in hdr:
                tr, st = hdr.split(' for ', 1)
                st = re.sub(r"&'\w+\s+", '&', st.strip())
                return strip_generics(tr).strip().split('::')[-1], strip_generics(st).strip()
            return None, strip_generics(hdr).strip()
        mm0 = re.match(r'\w+', txt)
        tr = mm0.group(0) if mm0 else None
        for l in lines[line - 1:line + 14]:
            mm = re.match(r'\s*(?:pub(?:\([^)]*\))?\s+)?(struct|enum)\s+(\w+)', l)
            if mm:
                return tr, mm.group(2)
        return tr, '?'

    def resolve(self, callee: str):
        r = self._cache.get(callee, 0)
        if r == 0:
            r = self._resolve(callee)
            self._cache[callee] = r
        return r

    def _resolve(self, callee: str):
        c = callee.strip()
        if c.startswith('<'):
            e = match_close(c, 0)
            inner = c[1:e]
            method = strip_generics(c[e + 1:]).lstrip(':')
            st, tr = split_as(inner)
            if tr is not None:
                tr = strip_generics(tr).split('::')[-1]
            sh = type_head(st)
            if not sh.lstrip('&').startswith(FLAVOURS):
                return None
            fl = sh.lstrip('&').split('::')[0]
            last = sh.split('::')[-1]
            cands = self.methods.get((fl, last, method), [])
            amp = sh.startswith('&')
            best = [f for (f, t, s) in cands if (t == tr or tr is None) and s.startswith('&') == amp]
            if len(best) == 1:
                return best[0]
            if len(best) > 1:
                return best
            return None
        s = strip_generics(c)
        if s in self.by_norm:
            return self.by_norm[s]
        parts0 = s.split('::')
        if len(parts0) == 2 and parts0[0][:1].isupper():
            # `Type::method` of a crate-private helper type named without its module path: unique across the crate?
            hits = [f for (fl, ty, meth), cands in self.methods.items() if ty == parts0[0] and meth == parts0[1] for (f, t, sh) in cands if t is None]
            if len(hits) == 1:
                return hits[0]
        if s.startswith(FLAVOURS):
            parts = s.split('::')
            if len(parts) >= 3:
                cands = self.methods.get((parts[0], parts[-2], parts[-1]), [])
                best = [f for (f, t, sh) in cands if t is None] or [f for (f, t, sh) in cands]
                if len(best) == 1:
                    return best[0]
                if best:
                    return best
        return None


# ------------------------------------------------------------------ executor
class Thread:
    __slots__ = ('id', 'held', 'fn', 'result', 'exc', 'pythread', 'sem', 'state', 'waiting')

    def __init__(self, id_):
        self.id = id_
        self.held = []            # [(lock Agg, 'r'|'w')]
        self.state = 'ready'
        self.waiting = None


class Exec:
    def __init__(self, fnindex: FnIndex, prims, pattern_prims, drop_hooks):
        self.ix = fnindex
        self.prims = prims
        self.pattern_prims = pattern_prims
        self.drop_hooks = drop_hooks
        self.step_budget = 400000
        self.depth_budget = 400
        self.cov_fns = set()
        self.cov_prims = set()
        self.tot_solver_s = 0.0
        self._primcache = {}
        self.reset(())

    def reset(self, prefix):
        self.solver = z3.Solver()
        self.prefix = list(prefix)
        self.trace = []
        self.nbox = 0
        self.steps = 0
        self.solver_calls = 0
        self.solver_s = 0.0
        self.asserts = 0
        self.events = []
        self.depth = 0
        self.cur = Thread(0)       # current logical thread
        self.threads = None        # multi-thread scheduler state (set by run_threads)
        self.syms = {}
        self.boxes = []
        self.path_facts = {}       # per-path choices of the environment that must stay the same within one run
        self.raw_ptrs = {}

    CROSS_EVERY = int(os.environ.get('VERIF_CVC5_EVERY', '20000'))

    def _check(self, *args, force_cross=False):
        t = time.perf_counter()
        r = self.solver.check(*args)
        self.solver_s += time.perf_counter() - t
        self._nchecks = getattr(self, '_nchecks', 0) + 1
        if force_cross or (self.CROSS_EVERY and self._nchecks % self.CROSS_EVERY == 0):
            self._cross_check(r, args)
        return r

    def _cross_check(self, r, args):
        """second solver: the same query through SMT-LIB2 to cvc5; disagreement makes the run inconclusive"""
        import subprocess
        s2 = z3.Solver()
        s2.add(self.solver.assertions())
        for a in args:
            s2.add(a)
        text = '(set-logic ALL)\n' + s2.to_smt2()
        try:
            p = subprocess.run(['cvc5', '--lang', 'smt2', '--tlimit=20000'], input=text, capture_output=True, text=True, timeout=30)
        except Exception as e:          # cvc5 missing or stuck: recorded, not fatal
            self.cross_skipped = getattr(self, 'cross_skipped', 0) + 1
            return
        out = p.stdout.strip().split('\n')[-1] if p.stdout.strip() else ''
        if '(error' in p.stdout or out not in ('sat', 'unsat'):
            self.cross_skipped = getattr(self, 'cross_skipped', 0) + 1
            return
        self.cross_checked = getattr(self, 'cross_checked', 0) + 1
        if out != str(r):
            raise Unsupported(f'solver disagreement: z3 says {r}, cvc5 says {out}')

    # ---- symbols
    def sym_int(self, name):
        v = self.syms.get(name)
        if v is None:
            v = z3.Int(name)
            self.syms[name] = v
        return v

    # ---- nondeterminism
    def choose(self, n, conds=None, label=''):
        k = len(self.trace)
        if k < len(self.prefix):
            ch, feas = self.prefix[k]
        else:
            if conds is None:
                feas = list(range(n))
            else:
                feas = []
                for i, c in enumerate(conds):
                    if c is None or c is True:
                        feas.append(i)
                    elif c is False:
                        continue
                    else:
                        self.solver_calls += 1
                        if self._check(c) == z3.sat:
                            feas.append(i)
            if not feas:
                raise Infeasible()
            ch = feas[0]
        self.trace.append((ch, feas))
        if conds is not None and conds[ch] is not None and conds[ch] is not True:
            self.solver.add(conds[ch])
        return ch

    def branch(self, cond):
        if isinstance(cond, bool):
            return cond
        cond = z3.simplify(cond)
        if z3.is_true(cond):
            return True
        if z3.is_false(cond):
            return False
        return self.choose(2, [z3.Not(cond), cond]) == 1

    def assume(self, cond):
        if isinstance(cond, bool):
            if not cond:
                raise Infeasible()
            return
        self.solver.add(cond)

    def prove(self, cond):
        """None if cond holds for every valuation on this path, else a z3 model"""
        self.asserts += 1
        if isinstance(cond, bool):
            if cond:
                return None
            self.solver_calls += 1
            if self._check() == z3.sat:
                return self.solver.model()
            return None
        cond = z3.simplify(cond)
        if z3.is_true(cond):
            return None
        self.solver_calls += 1
        r = self._check(z3.Not(cond))
        if r == z3.sat:
            return self.solver.model()
        if r == z3.unknown:
            raise Unsupported('solver returned unknown')
        return None

    def prove_all(self, conds):
        """conds: [(cond, ...)] tuples; one solver query for the conjunction; -> list of (index, model) failures"""
        self.asserts += len(conds)
        sym = []
        bad = []
        for i, c in enumerate(conds):
            c0 = c[0]
            if isinstance(c0, bool):
                if not c0:
                    bad.append(i)
            else:
                sym.append((i, c0))
        out = []
        if bad:
            self.solver_calls += 1
            if self._check() == z3.sat:
                m = self.solver.model()
                out += [(i, m) for i in bad]
        if sym:
            self.solver_calls += 1
            r = self._check(z3.Not(z3.And([c for _, c in sym])))
            if r == z3.unknown:
                raise Unsupported('solver returned unknown')
            if r == z3.sat:
                for i, c in sym:
                    self.solver_calls += 1
                    if self._check(z3.Not(c), force_cross=not out) == z3.sat:
                        out.append((i, self.solver.model()))
        return sorted(out, key=lambda t: t[0])

    # ---- heap
    def new_box(self, v, arc=False):
        b = RcBox(v, self.nbox, arc)
        self.nbox += 1
        self.boxes.append(b)
        return b

    # ---- place access
    def _walk(self, cell, path, frame=None):
        cont, key = cell, None
        for st in path:
            cur = cont.v if key is None else cont.f[key]
            k = st[0]
            if k == 'deref':
                if isinstance(cur, Ref):
                    cont, key = self._walk(cur.cell, cur.path)
                elif isinstance(cur, Agg) and cur.kind == 'Box':
                    cont, key = cur, 0
                else:
                    raise Unsupported(f'deref of {cur!r}')
            elif k == 'f':
                if not isinstance(cur, Agg):
                    raise Unsupported(f'field {st[1]} of {cur!r}')
                if st[1] >= len(cur.f):
                    raise Unsupported(f'field {st[1]} out of range of {cur!r}')
                cont, key = cur, st[1]
            elif k == 'variant':
                pass
            elif k in ('idx', 'i', 'cidx') and isinstance(cur, Agg) and cur.kind == 'SliceView':
                # element of a sub-slice view (base reference, start, end): redirect into the underlying list
                i = frame[st[1]].v if k == 'idx' else st[1]
                if is_sym(i):
                    raise Unsupported('symbolic index')
                base, s0, e0 = cur.f
                if i >= e0 - s0:
                    raise RustPanic('index out of bounds')
                bc, bk = self._walk(base.cell, base.path)
                lst = bc.v if bk is None else bc.f[bk]
                if s0 + i >= len(lst.f):
                    raise Unsupported('dangling element reference')
                cont, key = lst, s0 + i
            elif k == 'idx':
                i = frame[st[1]].v
                if is_sym(i):
                    raise Unsupported('symbolic index')
                if i >= len(cur.f):
                    raise RustPanic('index out of bounds')
                cont, key = cur, i
            elif k == 'i':
                if st[1] >= len(cur.f):
                    raise Unsupported('dangling element reference')
                cont, key = cur, st[1]
            elif k == 'cidx':
                cont, key = cur, st[1]
            else:
                raise Unsupported(str(st))
        return cont, key

    def load(self, cell, path, frame=None):
        c, k = self._walk(cell, path, frame)
        return c.v if k is None else c.f[k]

    def store(self, cell, path, val, frame=None):
        c, k = self._walk(cell, path, frame)
        if k is None:
            c.v = val
        else:
            c.f[k] = val

    def deref(self, r):
        return self.load(r.cell, r.path)

    def deref_all(self, v):
        while isinstance(v, Ref):
            v = self.deref(v)
        return v

    def copyval(self, v):
        if type(v) is Agg and v.x is None:
            return Agg(v.kind, [self.copyval(x) for x in v.f], v.variant)
        return v

    # ---- drop glue
    def drop(self, v):
        if isinstance(v, RcH):
            b = v.box
            b.strong -= 1
            if b.strong < 0:
                raise Unsupported('strong count below zero')
            if b.strong == 0:
                inner = b.cell.v
                b.dropped += 1
                self.events.append(('drop_node', b.id))
                b.cell.v = UNINIT
                self.drop(inner)
                b.weak -= 1
        elif isinstance(v, WeakH):
            v.box.weak -= 1
        elif isinstance(v, Agg):
            h = self.drop_hooks.get(v.kind)
            if h:
                h(self, v)
            else:
                for x in v.f:
                    self.drop(x)

    # ---- operands / rvalues
    def operand(self, op: Operand, frame):
        if op.kind == 'const':
            c = op.const
            if isinstance(c, (bool, int)):
                return c
            if c[0] == 'unit':
                return Agg('tuple', [])
            if c[0] == 'zst':
                return Agg(c[1], [], x='zst')
            if c[0] in ('str', 'bytes', 'char'):
                return Agg(c[0], [c[1]])
            return self.raw_const(c[1])
        p = op.place
        cell = frame[p.local]
        v = self.load(cell, p.proj, frame)
        if v is UNINIT:
            raise Unsupported(f'read of uninit _{p.local}{p.proj}')
        if op.kind == 'move':
            self.store(cell, p.proj, UNINIT, frame)
            return v
        return self.copyval(v)

    def raw_const(self, text):
        t = text.strip()
        m = re.match(r'^(.*)::(\w+)$', strip_generics(t))
        if m and m.group(2).isupper() and len(getattr(self.ix, 'consts', {}).get(m.group(2), ())) == 1:
            return next(iter(self.ix.consts[m.group(2)]))          # a named integer constant of the crate
        if m:
            # unit enum variant / unit struct constant like Option::<T>::None, Ordering::Less
            return self.mk_adt(t, [])
        return Agg('const', [t])

    def rvalue(self, rv: Rvalue, frame, fn):
        k = rv.kind
        if k == 'use':
            return self.operand(rv.args[0], frame)
        if k in ('ref', 'rawref'):
            p = rv.args[0]
            return self.mkref(frame[p.local], p.proj, frame)
        if k == 'discr':
            p = rv.args[0]
            v = self.load(frame[p.local], p.proj, frame)
            if not isinstance(v, Agg) or v.variant is None:
                raise Unsupported(f'discriminant of {v!r}')
            return v.variant
        if k == 'tuple':
            return Agg('tuple', [self.operand(o, frame) for o in rv.args])
        if k == 'array':
            return Agg('array', [self.operand(o, frame) for o in rv.args])
        if k == 'closure':
            return Agg(rv.args[0], [self.operand(o, frame) for _, o in rv.args[1]])
        if k == 'adt':
            head, ops, names = rv.args
            vals = [self.operand(o, frame) for o in ops]
            return self.mk_adt(head, vals)
        if k == 'binop':
            op, a, b = rv.args
            return self.binop(op, self.operand(a, frame), self.operand(b, frame))
        if k == 'unop':
            op, a = rv.args
            x = self.operand(a, frame)
            if op == 'Not':
                if isinstance(x, bool):
                    return not x
                if is_sym(x) and z3.is_bool(x):
                    return z3.Not(x)
                if isinstance(x, int):
                    # bitwise complement of a machine word: the operand's width is not tracked for concrete values,
                    # lengths and indices are usize
                    return (~x) & (2 ** 64 - 1)
                raise Unsupported('bitwise Not')
            if op == 'Neg':
                return -x
            if op == 'PtrMetadata':
                v = self.deref_all(x)
                if isinstance(v, Agg) and v.kind == 'SliceView':
                    return v.f[2] - v.f[1]
                return len(v.f)
            raise Unsupported(op)
        if k == 'cast':
            v = self.operand(rv.args[0], frame)
            kind = rv.args[2]
            if kind.startswith('IntToInt') and isinstance(v, bool):
                return int(v)
            if kind.startswith('IntToInt') and is_sym(v) and z3.is_bool(v):
                return z3.If(v, 1, 0)
            return v
        if k == 'len':
            p = rv.args[0]
            v = self.load(frame[p.local], p.proj, frame)
            if isinstance(v, Agg) and v.kind == 'SliceView':
                return v.f[2] - v.f[1]
            return len(v.f)
        raise Unsupported('rvalue ' + k + ' ' + rv.text)

    def mkref(self, cell, path, frame):
        last = -1
        for i, st in enumerate(path):
            if st[0] in ('deref', 'idx'):
                last = i
        if last < 0:
            return Ref(cell, tuple(path))
        pre = self.load(cell, path[:last], frame)
        st = path[last]
        rest = tuple(path[last + 1:])
        if st[0] == 'deref':
            if isinstance(pre, Ref):
                return Ref(pre.cell, tuple(pre.path) + rest)
            if isinstance(pre, Agg) and pre.kind == 'Box':
                base = self.mkref(cell, path[:last], frame)
                return Ref(base.cell, tuple(base.path) + (('f', 0),) + rest)
            raise Unsupported(f'mkref through {pre!r}')
        i = frame[st[1]].v
        if is_sym(i):
            raise Unsupported('symbolic index')
        if i >= len(pre.f):
            raise RustPanic('index out of bounds')
        base = self.mkref(cell, path[:last], frame)
        return Ref(base.cell, tuple(base.path) + (('i', i),) + rest)

    ENUM_STD = {'Option': ['None', 'Some'], 'Result': ['Ok', 'Err'], 'ControlFlow': ['Continue', 'Break']}

    _adt_cache = {}

    def mk_adt(self, head, vals):
        parts = self._adt_cache.get(head)
        if parts is None:
            parts = self._adt_cache[head] = strip_generics(head).split('::')
        h = '::'.join(parts)
        if len(parts) >= 2:
            en, var = parts[-2], parts[-1]
            if en in self.ENUM_STD and var in self.ENUM_STD[en]:
                return Agg(en, vals, self.ENUM_STD[en].index(var))
            if en == 'Ordering' and var in ('Less', 'Equal', 'Greater'):
                if parts[0] in FLAVOURS:
                    vs = self.ix.enums.get((parts[0], en))
                    if vs and var in vs:
                        return Agg('::'.join(parts[:-1]), vals, vs.index(var))
                return Agg('Ordering', [], {'Less': -1, 'Equal': 0, 'Greater': 1}[var])
            vs = self.ix.enums.get((parts[0], en)) or self.ix.enums.get(('', en))
            if vs and var in vs:
                return Agg('::'.join(parts[:-1]), vals, vs.index(var))
        if parts[-1] == 'Reverse':
            return Agg('Reverse', vals)
        return Agg(h, vals)

    U64 = (1 << 64) - 1

    def binop(self, op, a, b):
        sym = is_sym(a) or is_sym(b)
        if isinstance(a, Agg) or isinstance(b, Agg):
            # comparison of fieldless enums (discriminants) / chars
            if isinstance(a, Agg) and isinstance(b, Agg) and a.kind == b.kind == 'char':
                a, b = ord(a.f[0]), ord(b.f[0])
            else:
                raise Unsupported(f'binop {op} on aggregates')
        if op in ('Eq', 'Ne', 'Lt', 'Le', 'Gt', 'Ge'):
            if isinstance(a, bool) and is_sym(b):
                a = z3.BoolVal(a)
            if isinstance(b, bool) and is_sym(a):
                b = z3.BoolVal(b)
            return {'Eq': lambda: a == b, 'Ne': lambda: a != b, 'Lt': lambda: a < b, 'Le': lambda: a <= b,
                    'Gt': lambda: a > b, 'Ge': lambda: a >= b}[op]()
        if op == 'Cmp':
            if sym:
                ch = self.choose(3, [a < b, a == b, a > b])
                return Agg('Ordering', [], ch - 1)
            return Agg('Ordering', [], (a > b) - (a < b))
        if op in ('Add', 'Sub', 'Mul', 'AddUnchecked', 'SubUnchecked', 'MulUnchecked'):
            return {'A': a + b, 'S': a - b, 'M': a * b}[op[0]]
        if op.endswith('WithOverflow'):
            r = {'A': a + b, 'S': a - b, 'M': a * b}[op[0]]
            if sym:
                ov = z3.Or(r > self.U64, r < 0)
            else:
                ov = r > self.U64 or r < 0
            return Agg('tuple', [r, ov])
        if op in ('BitAnd', 'BitOr', 'BitXor') and not sym:
            if isinstance(a, bool) and isinstance(b, bool):
                return {'BitAnd': a and b, 'BitOr': a or b, 'BitXor': a != b}[op]
            return {'BitAnd': a & b, 'BitOr': a | b, 'BitXor': a ^ b}[op]
        if op in ('BitAnd', 'BitOr', 'BitXor') and sym:
            za = z3.BoolVal(a) if isinstance(a, bool) else a
            zb = z3.BoolVal(b) if isinstance(b, bool) else b
            if z3.is_bool(za) and z3.is_bool(zb):
                return {'BitAnd': z3.And(za, zb), 'BitOr': z3.Or(za, zb), 'BitXor': z3.Xor(za, zb)}[op]
        if op in ('Div', 'Rem') and not sym:
            if b == 0:
                raise RustPanic('division by zero')
            return a // b if op == 'Div' else a % b
        if op in ('Shl', 'Shr') and not sym:
            return (a << b) & self.U64 if op == 'Shl' else a >> b
        raise Unsupported('binop ' + op)

    # ---- calls
    def call_fn(self, f: Func, args):
        self.depth += 1
        if self.depth > self.depth_budget:
            raise Budget('recursion depth')
        self.cov_fns.add(f.name)
        frame = {i: Cell() for i in f.locals}
        frame.setdefault(0, Cell())
        if len(args) != len(f.params):
            raise Unsupported(f'arity mismatch calling {f.name}: {len(args)} vs {len(f.params)}')
        for (pi, _), a in zip(f.params, args):
            frame[pi].v = a
        bb = 0
        blocks = f.blocks
        while True:
            blk = blocks[bb]
            for st in blk.stmts:
                if st.rv.kind == 'setdiscr':
                    v = self.load(frame[st.place.local], st.place.proj, frame)
                    v.variant = st.rv.args[0]
                    continue
                val = self.rvalue(st.rv, frame, f)
                self.store(frame[st.place.local], st.place.proj, val, frame)
            self.steps += len(blk.stmts) + 1
            if self.steps > self.step_budget:
                raise Budget('step budget')
            t = blk.term
            k = t.kind
            if k == 'goto':
                bb = t.d['target']
            elif k == 'return':
                self.depth -= 1
                return frame[0].v
            elif k == 'switch':
                x = self.operand(t.d['op'], frame)
                if isinstance(x, bool):
                    x = int(x)
                if is_sym(x):
                    if z3.is_bool(x):
                        bb = self._switch_target(t, 1 if self.branch(x) else 0)
                    else:
                        vals = [v for v, _ in t.d['arms']]
                        conds = [x == v for v in vals] + [z3.And([x != v for v in vals])]
                        ch = self.choose(len(conds), conds)
                        bb = t.d['arms'][ch][1] if ch < len(vals) else t.d['otherwise']
                else:
                    bb = self._switch_target(t, x)
            elif k == 'drop':
                p = t.d['place']
                v = self.load(frame[p.local], p.proj, frame)
                if v is not UNINIT:
                    self.store(frame[p.local], p.proj, UNINIT, frame)
                    self.drop(v)
                bb = t.d['target']
            elif k == 'assert':
                c = self.operand(t.d['cond'], frame)
                ok = self.branch(c if t.d['expected'] else (not c if isinstance(c, bool) else z3.Not(c)))
                if not ok:
                    raise RustPanic('assert failed: ' + t.d['msg'])
                bb = t.d['target']
            elif k == 'call':
                args2 = [self.operand(a, frame) for a in t.d['args']]
                if t.d['callee'] is None:
                    fv = self.operand(t.d['callee_op'], frame)
                    r = self.call_closure(fv, args2)
                else:
                    r = self.call(t.d['callee'], args2, t)
                if t.d['ret'] is None:
                    raise Unsupported('diverging call returned: ' + str(t.d['callee']))
                if t.d['dest'] is not None:
                    self.store(frame[t.d['dest'].local], t.d['dest'].proj, r, frame)
                bb = t.d['ret']
            elif k == 'unreachable':
                raise Unsupported('reached unreachable in ' + f.name)
            else:
                raise Unsupported('terminator ' + k)

    def _switch_target(self, t, x):
        for v, b in t.d['arms']:
            if v == x:
                return b
            # discriminants of i8-like enums are printed as unsigned values
            if x < 0 and v == (x & 0xff):
                return b
        if t.d['otherwise'] is None:
            raise Unsupported('switch no target')
        return t.d['otherwise']

    def call(self, callee, args, term=None):
        f = self.ix.resolve(callee)
        if isinstance(f, list):
            f = self._disambiguate(f, args, callee)
        if f is not None:
            return self.call_fn(f, args)
        p = self._primcache.get(callee)
        if p is None:
            n = normalize_callee(callee)
            m = re.match(r'^<&(.*) as (PartialEq|PartialOrd|Ord)(<.*>)?>::(\w+)$', callee.strip())
            if m and type_head(m.group(1)).lstrip('&').startswith(FLAVOURS):
                inner, tr, meth = m.group(1), m.group(2), m.group(4)
                inner = re.sub(r"^'\w+\s+", '', inner)

                def p(ex, a, _i=inner, _t=tr, _m=meth):
                    a = [ex.deref(x) if isinstance(x, Ref) else x for x in a]
                    return ex.call(f'<{_i} as {_t}>::{_m}', a)
            else:
                p = self.prims.get(n)
                if p is None:
                    for rx, fn in self.pattern_prims:
                        if rx.match(n):
                            p = fn
                            break
                if p is None:
                    raise Unsupported(f'no model for callee {n!r}   [{callee[:160]}]')
                self.cov_prims.add(n)
            self._primcache[callee] = p
        self.cur_callee = callee
        return p(self, args)

    def _disambiguate(self, cands, args, callee):
        out = []
        for f in cands:
            if len(f.params) != len(args):
                continue
            ok = True
            for (pi, pt), a in zip(f.params, args):
                isref = pt.strip().startswith('&')
                if isref != isinstance(a, Ref):
                    ok = False
            if ok:
                out.append(f)
        if len(out) == 1:
            return out[0]
        raise Unsupported(f'ambiguous callee {callee}: {[f.name for f in cands]}')

    def call_closure(self, clo, argtuple):
        target = clo
        while isinstance(target, Ref):
            nxt = self.deref(target)
            if isinstance(nxt, (Ref, PyFn)):
                target = nxt
            else:
                break
        if isinstance(target, PyFn):
            return target.fn(self, *argtuple)
        env = target
        cv = self.deref(env) if isinstance(env, Ref) else env
        if isinstance(cv, PyFn):
            return cv.fn(self, *argtuple)
        if not isinstance(cv, Agg):
            raise Unsupported(f'call of non-closure {cv!r}')
        body = self.ix.closures.get(cv.kind)
        if body is None:
            # fn item (ZST constant naming a function)
            if cv.x == 'zst':
                return self.call(cv.kind, list(argtuple))
            raise Unsupported('closure body ' + cv.kind)
        p0 = body.params[0][1].strip()
        a0 = env if p0.startswith('&') else cv
        if p0.startswith('&') and not isinstance(env, Ref):
            a0 = Ref(Cell(cv))
        return self.call_fn(body, [a0] + list(argtuple))

    # ---- locks (single-thread semantics; run_threads overrides scheduling)
    def lock_acquire(self, lock, mode):
        """lock: Agg('RwLock') with x = dict(readers=[tids], writer=tid|None, waiting_w=set())"""
        st = lock.x
        me = self.cur.id
        if self.threads is not None:
            return self.threads.acquire(self, lock, mode)
        if mode == 'r':
            if st['writer'] is not None:
                raise Deadlock('read() while this thread holds write() on the same lock')
            st['readers'].append(me)
        else:
            if st['writer'] is not None:
                raise Deadlock('write() while this thread holds write() on the same lock')
            if st['readers']:
                raise Deadlock('write() while this thread holds read() on the same lock')
            st['writer'] = me

    def lock_release(self, lock, mode, tid):
        st = lock.x
        if mode == 'r':
            st['readers'].remove(tid)
        else:
            st['writer'] = None


def explore(ex: Exec, harness, max_paths=10 ** 9):
    """DFS over the decision tree by re-execution.  harness(ex) -> list of findings (or None)."""
    stats = dict(paths=0, infeasible=0, findings=[], steps=0, solver_calls=0, asserts=0, solver_s=0.0, cross=0)
    c0 = getattr(ex, 'cross_checked', 0)
    prefix = []
    while True:
        ex.reset(prefix)
        try:
            res = harness(ex)
            if res:
                for r in res:
                    stats['findings'].append(r)
        except Infeasible:
            stats['infeasible'] += 1
        stats['paths'] += 1
        stats['steps'] += ex.steps
        stats['solver_calls'] += ex.solver_calls
        stats['asserts'] += ex.asserts
        stats['solver_s'] += ex.solver_s
        tr = ex.trace
        while tr:
            ch, feas = tr[-1]
            idx = feas.index(ch)
            if idx + 1 < len(feas):
                tr[-1] = (feas[idx + 1], feas)
                break
            tr.pop()
        if not tr or stats['paths'] >= max_paths:
            stats['cross'] = getattr(ex, 'cross_checked', 0) - c0
            return stats
        prefix = list(tr)


def load_index(mirfile, srcroot):
    text = open(mirfile).read()
    funcs = parse_dump(text)
    ix = FnIndex(funcs, srcroot)
    # associated / module-level integer constants with a literal value: `const path::NAME: usize = const 8_usize;`
    ix.consts = {}
    for m in re.finditer(r'^const (\S.*?)::(\w+): [iu]\w+ = const (-?\d+)_[iu]\w+;', text, re.M):
        ix.consts.setdefault(m.group(2), set()).add(int(m.group(3)))
    for root, _, files in os.walk(os.path.join(srcroot, 'src')):
        for fn in files:
            if not fn.endswith('.rs'):
                continue
            txt = open(os.path.join(root, fn)).read()
            rel = os.path.relpath(os.path.join(root, fn), os.path.join(srcroot, 'src'))
            fl = rel.split(os.sep)[0].replace('.rs', '')
            for m in re.finditer(r'enum\s+(\w+)[^{;]*\{(.*?)\n\}', txt, re.S):
                body = re.sub(r'//[^\n]*', '', m.group(2))
                body = re.sub(r'#\[[^\]]*\]', '', body)
                vs = [re.match(r'\s*(\w+)', x).group(1) for x in split_top(body) if re.match(r'\s*(\w+)', x)]
                ix.enums[(fl, m.group(1))] = vs
    return ix


# ------------------------------------------------------------------ threads (C17)
class Abort(BaseException):
    pass


class Sched:
    """Cooperative scheduler: logical threads are python threads, exactly one runs at a time; a context
    switch is a free choice (Exec.choose) immediately before every RwLock::read / RwLock::write.

    RwLock model (std's futex lock is writer-preferring):
      write: granted iff no holder at all;  read: granted iff no writer holds and no writer is queued.
      A thread that attempts while the lock is not grantable queues (writers register as waiting) and
      becomes eligible again when its acquisition is grantable.  Same-thread re-acquisition is never granted.
    """

    def __init__(self, ex, fns, max_steps=400, preemption_bound=None):
        self.preemption_bound = preemption_bound
        self.preemptions = 0
        self.last = None
        self.ex = ex
        self.fns = fns
        self.threads = [Thread(i + 1) for i in range(len(fns))]
        self.main = threading.Semaphore(0)
        self.schedule = []
        self.max_steps = max_steps
        self.abort = False

    # called from inside a logical thread (through Exec.lock_acquire)
    def acquire(self, ex, lock, mode):
        t = ex.cur
        t.waiting = (lock, mode)
        t.state = 'at_lock'
        self.main.release()
        t.sem.acquire()
        if self.abort:
            raise Abort()
        # granted by the scheduler (lock state already updated)
        t.waiting = None
        t.state = 'running'

    def grantable(self, t):
        lock, mode = t.waiting
        st = lock.x
        if mode == 'w':
            return st['writer'] is None and not st['readers']
        return st['writer'] is None and not [w for w in st['waiting_w'] if w != t.id]

    def grant(self, t):
        lock, mode = t.waiting
        st = lock.x
        st['waiting_w'].discard(t.id)
        if mode == 'w':
            st['writer'] = t.id
        else:
            st['readers'].append(t.id)

    def _body(self, t, fn):
        t.sem.acquire()
        try:
            if self.abort:
                raise Abort()
            self.ex.cur = t
            t.state = 'running'
            t.result = fn()
            t.state = 'done'
        except Abort:
            t.state = 'aborted'
        except RustPanic as p:
            t.exc = ('panic', str(p))
            t.state = 'done'
            # unwinding: the thread's guards are dropped; a write guard dropped while panicking poisons its lock
            for (l, mode) in list(t.held):
                if mode == 'w':
                    l.x['poisoned'] = True
                    l.x['writer'] = None
                elif t.id in l.x['readers']:
                    l.x['readers'].remove(t.id)
            t.held = []
        except Deadlock as d:
            t.exc = ('deadlock', str(d))
            t.state = 'done'
        except Budget as b:
            t.exc = ('hang', str(b))
            t.state = 'done'
        except (Unsupported, Infeasible) as e:
            t.exc = ('engine', e)
            t.state = 'done'
        except BaseException as e:           # engine bug: surface it on the main thread
            t.exc = ('engine', e)
            t.state = 'done'
        finally:
            self.main.release()

    def run(self):
        ex = self.ex
        saved = ex.cur
        ex.threads = self
        for t, fn in zip(self.threads, self.fns):
            t.sem = threading.Semaphore(0)
            t.result = None
            t.exc = None
            t.state = 'new'
            t.pythread = threading.Thread(target=self._body, args=(t, fn), daemon=True)
            t.pythread.start()
        outcome = 'ok'
        try:
            steps = 0
            while True:
                live = [t for t in self.threads if t.state not in ('done', 'aborted')]
                if not live:
                    break
                cands = []
                for t in live:
                    if t.state == 'new':
                        cands.append((t, 'start'))
                    elif t.state == 'at_lock':
                        cands.append((t, 'attempt'))
                    elif t.state == 'queued' and self.grantable(t):
                        cands.append((t, 'wake'))
                if not cands:
                    outcome = 'deadlock'
                    break
                steps += 1
                if steps > self.max_steps:
                    raise Budget('schedule does not end')
                # preemption bounding: switching away from a thread that could go on costs one preemption
                cont = None
                if self.last is not None:
                    for c in cands:
                        if c[0] is self.last and (c[1] != 'attempt' or self.grantable(c[0])):
                            cont = c
                if cont is not None and self.preemption_bound is not None and self.preemptions >= self.preemption_bound:
                    cands = [cont]
                j = ex.choose(len(cands), label='schedule') if len(cands) > 1 else 0
                t, what = cands[j]
                if cont is not None and t is not self.last:
                    self.preemptions += 1
                self.last = t
                self.schedule.append([t.id, what] + ([t.waiting[1], id(t.waiting[0])] if t.waiting else []))
                if what == 'attempt' and not self.grantable(t):
                    t.state = 'queued'
                    if t.waiting[1] == 'w':
                        t.waiting[0].x['waiting_w'].add(t.id)
                    continue
                if what in ('attempt', 'wake'):
                    self.grant(t)
                ex.cur = t
                t.sem.release()
                self.main.acquire()
                for t2 in self.threads:
                    if t2.exc and t2.exc[0] == 'engine':
                        raise t2.exc[1]
        finally:
            self.abort = True
            for t in self.threads:
                if t.state not in ('done', 'aborted'):
                    t.sem.release()
            for t in self.threads:
                t.pythread.join(timeout=5)
            ex.threads = None
            ex.cur = saved
        return outcome
