"""property id -> module implementing run(prop, tier, seed)"""
import json

import nodeops
import searches
import c08
import c15
import c20
import containers
import serde_props
import c19
import c16
import c14
import c17

REGISTRY = {'C01': nodeops, 'C02': nodeops, 'C03': nodeops,
            'C04': searches, 'C05': searches, 'C06': searches, 'C07': searches, 'C09': searches, 'C10': searches, 'C08': c08, 'C15': c15, 'C20': c20, 'C11': containers, 'C18': containers, 'C12': serde_props, 'C13': serde_props, 'C19': c19, 'C16': c16, 'C14': c14, 'C17': c17}
EVALUATE = {nodeops: nodeops.evaluate_ctx, searches: searches.evaluate, c08: c08.evaluate, c15: c15.evaluate, c20: c20.evaluate, c19: c19.evaluate}
EVALUATE_BY_PROP = {'C11': containers.evaluate_c11, 'C18': containers.evaluate_c18,
                    'C12': serde_props.evaluate_c12, 'C13': serde_props.evaluate_c13}


def replay(prop, path):
    """re-run a stored counterexample on the native build and re-evaluate the oracle"""
    import runner
    d = json.load(open(path))
    native = runner.Native(hooks=getattr(REGISTRY[prop], 'HOOKS', False))
    mod0 = REGISTRY[prop]
    obs = mod0.natrun(native, d['scenario']) if hasattr(mod0, 'natrun') else native.run([d['scenario']])[0]
    import scheck
    mod = REGISTRY[prop]
    ev = EVALUATE_BY_PROP.get(prop) or EVALUATE[mod]
    bad = scheck.native_evaluator(prop, ev)({'scen': d['scenario']}, obs)
    print(json.dumps({'native_observations': obs, 'failures': bad}, indent=1))
    if bad:
        print(f'VIOLATION property={prop} replay={path}')
        return 1
    return 0
