"""property id -> module implementing run(prop, tier, seed)"""
import json

import nodeops

REGISTRY = {'C01': nodeops, 'C02': nodeops, 'C03': nodeops}


def replay(prop, path):
    """re-run a stored counterexample on the native build and re-evaluate the oracle"""
    import runner
    d = json.load(open(path))
    native = runner.Native(hooks=getattr(REGISTRY[prop], 'HOOKS', False))
    obs = native.run([d['scenario']])[0]
    bad = REGISTRY[prop].evaluate_native(prop)({'scen': d['scenario']}, obs)
    print(json.dumps({'native_observations': obs, 'failures': bad}, indent=1))
    if bad:
        print(f'VIOLATION property={prop} replay={path}')
        return 1
    return 0
