"""C16: thread-sharing of nodes is exactly as safe as their payload types (engine C).

Struct definitions and `unsafe impl Send/Sync` headers are read from the current source; Send(T) and
Sync(T) become Boolean functions of the six leaf facts {K,N,E} x {Send,Sync} under std's auto-trait rules
(coinductive: a type has the trait iff some post-fixpoint of the rules contains it).  z3 decides the
property over all 64 assignments at once; a probe crate compiled against /repo reports what rustc's trait
solver actually concludes for every assignment and type, which validates the axioms and replays
counterexamples.
"""
import json
import os
import re
import subprocess
import time

import z3

import build
from mirparse import match_close, split_top
from runner import Report, load_known, match_known

SYNC = ('sync_digraph', 'sync_ungraph')
PLAIN = ('digraph', 'ungraph')
PARAMS = ('K', 'N', 'E')
TYPES = ('Node', 'Edge', 'Graph', 'Path')
CLAIMED = {'sync': ('Node', 'Edge', 'Graph'), 'plain': ('Node', 'Edge', 'Graph', 'Path')}


# ------------------------------------------------------------------ source model
def strip_comments(t):
    t = re.sub(r'//[^\n]*', '', t)
    return re.sub(r'/\*.*?\*/', '', t, flags=re.S)


class Flavour:
    def __init__(self, name):
        self.name = name
        self.structs = {}        # Name -> (file, [field type strings])
        self.aliases = {}        # (file, Alias) -> type string
        self.impls = []          # (trait, type name, {param: set(bounds)})
        self.uses = {}           # file -> text of use declarations
        root = os.path.join(build.REPO, 'src', name)
        for dp, _, fs in os.walk(root):
            for fn in fs:
                if fn.endswith('.rs'):
                    self.scan(os.path.join(dp, fn))

    def scan(self, path):
        txt = strip_comments(open(path).read())
        self.uses[path] = ' '.join(re.findall(r'\buse\b[^;]*;', txt, flags=re.S))
        for m in re.finditer(r'\btype\s+(\w+)\s*(<[^=]*>)?\s*=\s*([^;]+);', txt):
            self.aliases[(path, m.group(1))] = m.group(3).strip()
        for m in re.finditer(r'\bstruct\s+(\w+)\s*(<)?', txt):
            name = m.group(1)
            i = m.end()
            if m.group(2):
                i = match_close(txt, m.end() - 1) + 1
            rest = txt[i:]
            r0 = rest.lstrip()
            if r0.startswith('('):
                j = match_close(r0, 0)
                fields = [re.sub(r'^\s*pub(\([^)]*\))?\s+', '', f).strip() for f in split_top(r0[1:j])]
            else:
                k = rest.find('{')
                semi = rest.find(';')
                if k < 0 or (0 <= semi < k):
                    fields = []
                else:
                    j = match_close(rest, k)
                    fields = []
                    for f in split_top(rest[k + 1:j]):
                        if ':' in f:
                            fields.append(f.split(':', 1)[1].strip())
            if name in TYPES + ('WeakNode', 'Adjacent'):
                self.structs[name] = (path, fields)
        for m in re.finditer(r'unsafe\s+impl\s*(<[^{]*?>)?\s*(Send|Sync)\s+for\s+(\w+)', txt):
            k = txt.find('{', m.end())
            header = txt[m.start():k]
            bounds = {p: set() for p in PARAMS}
            # bounds inside the generics list and in the where clause
            for p in PARAMS:
                for bm in re.finditer(r'\b' + p + r'\s*:\s*([^,{>]+)', header):
                    for b in bm.group(1).split('+'):
                        bounds[p].add(b.strip())
            self.impls.append((m.group(2), m.group(3), bounds))

    def weak_is_sync(self, path):
        u = self.uses.get(path, '')
        if re.search(r'sync::\{[^}]*\bWeak\b', u) or 'sync::Weak' in u:
            return True
        if re.search(r'rc::\{[^}]*\bWeak\b', u) or 'rc::Weak' in u:
            return False
        # `use super::*` - look at the parent module file
        parent = os.path.join(os.path.dirname(path), 'mod.rs')
        if parent != path and parent in self.uses:
            return self.weak_is_sync(parent)
        raise ValueError('cannot tell which Weak ' + path + ' uses')


class Enc:
    """Boolean encoding of Send / Sync for one flavour"""

    def __init__(self, fl: Flavour):
        self.fl = fl
        self.leaf = {(p, t): z3.Bool(f'{t}_{p}') for p in PARAMS for t in ('Send', 'Sync')}
        # "the parameter satisfies the lifetime bounds an explicit impl asks for" (e.g. 'static): a borrowed payload does not
        self.outlives = {p: z3.Bool(f'Outlives_{p}') for p in PARAMS}
        self.X = {}
        self.rules_used = set()

    def var(self, name, trait):
        k = (name, trait)
        if k not in self.X:
            self.X[k] = z3.Bool(f'{trait}_{self.fl.name}_{name}')
        return self.X[k]

    def ev(self, ty, trait, path):
        """formula for `ty: trait`"""
        ty = ty.strip()
        ty = re.sub(r"^'\w+\s+", '', ty)
        if ty.startswith('&'):
            inner = re.sub(r"^&\s*('\w+\s+)?", '', ty)
            mut = inner.startswith('mut ')
            inner = inner[4:] if mut else inner
            self.rules_used.add('&mut T' if mut else '&T')
            if mut:
                return self.ev(inner, trait, path)
            return self.ev(inner, 'Sync', path)          # &T: Send <=> T: Sync ; &T: Sync <=> T: Sync
        if ty.startswith('dyn '):
            self.rules_used.add('dyn Trait without auto-trait bounds: neither')
            return z3.BoolVal('+ ' + trait in ty)
        if ty.startswith('('):
            items = split_top(ty[1:match_close(ty, 0)])
            self.rules_used.add('tuple: componentwise')
            return z3.And([self.ev(i, trait, path) for i in items]) if items else z3.BoolVal(True)
        m = re.match(r'^([\w:]+)\s*(<.*>)?$', ty, flags=re.S)
        if not m:
            raise ValueError('type? ' + ty)
        name = m.group(1).split('::')[-1]
        args = split_top(m.group(2)[1:-1]) if m.group(2) else []
        args = [a for a in args if not a.strip().startswith("'")]
        if name in PARAMS and not args:
            return self.leaf[(name, trait)]
        if (path, name) in self.fl.aliases:
            return self.ev(self.fl.aliases[(path, name)], trait, path)
        if name in self.fl.structs:
            if [a.strip() for a in args] != list(PARAMS):
                raise ValueError(f'{name} used with arguments {args}; only <K, N, E> is encoded')
            return self.var(name, trait)
        both = lambda a: z3.And(self.ev(a, 'Send', path), self.ev(a, 'Sync', path))
        if name == 'Arc' or (name == 'Weak' and self.fl.weak_is_sync(path)):
            self.rules_used.add('Arc<T> / sync::Weak<T>: Send,Sync <=> T: Send + Sync')
            return both(args[0])
        if name == 'Rc' or name == 'Weak':
            self.rules_used.add('Rc<T> / rc::Weak<T>: never Send or Sync')
            return z3.BoolVal(False)
        if name in ('RwLock',):
            self.rules_used.add('RwLock<T>: Send <=> T: Send ; Sync <=> T: Send + Sync')
            return self.ev(args[0], 'Send', path) if trait == 'Send' else both(args[0])
        if name == 'Mutex':
            self.rules_used.add('Mutex<T>: Send,Sync <=> T: Send')
            return self.ev(args[0], 'Send', path)
        if name in ('RefCell', 'Cell', 'UnsafeCell'):
            self.rules_used.add('RefCell<T>: Send <=> T: Send ; never Sync')
            return self.ev(args[0], 'Send', path) if trait == 'Send' else z3.BoolVal(False)
        if name in ('Vec', 'Option', 'Box', 'VecDeque', 'HashMap', 'AHashMap', 'HashSet', 'AHashSet', 'BTreeMap', 'PhantomData'):
            self.rules_used.add('Vec/Option/Box/HashMap/..: componentwise')
            return z3.And([self.ev(a, trait, path) for a in args]) if args else z3.BoolVal(True)
        if name in ('usize', 'u8', 'u16', 'u32', 'u64', 'i8', 'i16', 'i32', 'i64', 'bool', 'String', 'isize'):
            return z3.BoolVal(True)
        raise ValueError('no auto-trait rule for type ' + ty)

    def postfix(self):
        """X_T => rule(T) for every encoded struct/trait (closing over newly discovered structs)"""
        cs = []
        done = set()
        explicit = {(n, t): b for t, n, b in self.fl.impls}
        while True:
            todo = [k for k in list(self.X) if k not in done]
            if not todo:
                break
            for (name, trait) in todo:
                done.add((name, trait))
                if (name, trait) in explicit:
                    bounds = explicit[(name, trait)]
                    f = z3.And([self.leaf[(p, b)] for p in PARAMS for b in bounds[p] if b in ('Send', 'Sync')]
                               + [self.outlives[p] for p in PARAMS for b in bounds[p] if b.startswith("'")] or [z3.BoolVal(True)])
                    self.rules_used.add(f'explicit `unsafe impl {trait} for {name}` with its where-clause')
                else:
                    path, fields = self.fl.structs[name]
                    f = z3.And([self.ev(fd, trait, path) for fd in fields] or [z3.BoolVal(True)])
                cs.append(z3.Implies(self.X[(name, trait)], f))
        return cs


MARK = {(True, True): 'SS', (True, False): 'S_', (False, True): '_Y', (False, False): '__'}


def leaf_assign(enc, k, n, e):
    """k, n, e: (send, sync) pairs -> list of z3 literals"""
    out = []
    for p, (s, y) in zip(PARAMS, (k, n, e)):
        out.append(enc.leaf[(p, 'Send')] if s else z3.Not(enc.leaf[(p, 'Send')]))
        out.append(enc.leaf[(p, 'Sync')] if y else z3.Not(enc.leaf[(p, 'Sync')]))
    return out


# ------------------------------------------------------------------ rustc probe
PROBE_RS = r'''
#![allow(dead_code, unused_imports)]
use std::cell::Cell;
use std::fmt;
use std::hash::{Hash, Hasher};
use std::marker::PhantomData;
use std::sync::MutexGuard;

pub struct P<M>(pub u8, PhantomData<M>);
impl<M> Clone for P<M> { fn clone(&self) -> Self { P(self.0, PhantomData) } }
impl<M> PartialEq for P<M> { fn eq(&self, o: &Self) -> bool { self.0 == o.0 } }
impl<M> Eq for P<M> {}
impl<M> Hash for P<M> { fn hash<H: Hasher>(&self, h: &mut H) { self.0.hash(h) } }
impl<M> fmt::Display for P<M> { fn fmt(&self, f: &mut fmt::Formatter) -> fmt::Result { write!(f, "{}", self.0) } }

type SS = u8;                                   // Send + Sync
type S_ = Cell<u8>;                             // Send, not Sync
type _Y = MutexGuard<'static, u8>;              // Sync, not Send
type __ = *const u8;                            // neither

struct W<T>(PhantomData<T>);
trait Fallback { fn send(&self) -> bool { false } fn sync(&self) -> bool { false } }
impl<T> Fallback for W<T> {}
impl<T: Send> W<T> { fn send(&self) -> bool { true } }
impl<T: Sync> W<T> { fn sync(&self) -> bool { true } }

macro_rules! row {
    ($fl:ident, $ty:ident, $k:ident, $n:ident, $e:ident) => {
        println!("{} {} {} {} {} {} {}", stringify!($fl), stringify!($ty), stringify!($k), stringify!($n), stringify!($e),
                 W::<gdsl::$fl::$ty<P<$k>, P<$n>, P<$e>>>(PhantomData).send(),
                 W::<gdsl::$fl::$ty<P<$k>, P<$n>, P<$e>>>(PhantomData).sync());
    };
}
macro_rules! all_e { ($fl:ident, $ty:ident, $k:ident, $n:ident) => { row!($fl,$ty,$k,$n,SS); row!($fl,$ty,$k,$n,S_); row!($fl,$ty,$k,$n,_Y); row!($fl,$ty,$k,$n,__); }; }
macro_rules! all_n { ($fl:ident, $ty:ident, $k:ident) => { all_e!($fl,$ty,$k,SS); all_e!($fl,$ty,$k,S_); all_e!($fl,$ty,$k,_Y); all_e!($fl,$ty,$k,__); }; }
macro_rules! all_k { ($fl:ident, $ty:ident) => { all_n!($fl,$ty,SS); all_n!($fl,$ty,S_); all_n!($fl,$ty,_Y); all_n!($fl,$ty,__); }; }

fn main() {
    // sanity of the marker types themselves
    println!("marker SS {} {}", W::<P<SS>>(PhantomData).send(), W::<P<SS>>(PhantomData).sync());
    println!("marker S_ {} {}", W::<P<S_>>(PhantomData).send(), W::<P<S_>>(PhantomData).sync());
    println!("marker _Y {} {}", W::<P<_Y>>(PhantomData).send(), W::<P<_Y>>(PhantomData).sync());
    println!("marker __ {} {}", W::<P<__>>(PhantomData).send(), W::<P<__>>(PhantomData).sync());
    ROWS
}
'''


def run_lifetime_probe():
    """compile-only: every sync type instantiated with borrowed payloads must be Send + Sync for every lifetime;
    -> list of (flavour, type) rows rustc rejects, or None if the probe cannot be judged"""
    d = os.path.join(build.WORK, 'c16-life-probe')
    os.makedirs(os.path.join(d, 'src'), exist_ok=True)
    rows = [(fl, ty) for fl in SYNC for ty in ('Node', 'Edge', 'Graph')]
    lines = ['fn need<T: Send + Sync>() {}', "pub fn probe<'a>() {"]
    at = {}
    for fl, ty in rows:
        lines.append(f"    need::<gdsl::{fl}::{ty}<&'a str, &'a str, &'a str>>();")
        at[len(lines)] = (fl, ty)
    lines.append('}')
    open(os.path.join(d, 'src', 'lib.rs'), 'w').write('\n'.join(lines) + '\n')
    open(os.path.join(d, 'Cargo.toml'), 'w').write(
        '[package]\nname = "c16-life-probe"\nversion = "0.1.0"\nedition = "2021"\n\n[workspace]\n\n[dependencies]\ngdsl = { path = "%s" }\n' % build.REPO)
    lock = os.path.join(build.REPO, 'Cargo.lock')
    if os.path.exists(lock) and not os.path.exists(os.path.join(d, 'Cargo.lock')):
        open(os.path.join(d, 'Cargo.lock'), 'w').write(open(lock).read())
    env = dict(build.ENV, CARGO_TARGET_DIR=os.path.join(build.WORK, 'c16-target'), RUSTFLAGS='-Awarnings')
    r = subprocess.run(['cargo', 'check', '--offline', '--quiet'], cwd=d, env=env, stdout=subprocess.PIPE, stderr=subprocess.PIPE, text=True)
    if r.returncode == 0:
        return []
    bad = set()
    for m in re.finditer(r'--> src/lib\.rs:(\d+):', r.stderr):
        if int(m.group(1)) in at:
            bad.add(at[int(m.group(1))])
    if not bad:
        # errors that do not point at a row: e.g. the whole function body ('a must outlive 'static reported at the signature)
        if "'static" in r.stderr or 'lifetime' in r.stderr:
            return [('?', '?')]
        return None
    return sorted(bad)


def run_probe():
    d = os.path.join(build.WORK, 'c16-probe')
    os.makedirs(os.path.join(d, 'src'), exist_ok=True)
    rows = []
    for fl in SYNC + PLAIN:
        for ty in ('Node', 'Edge', 'Graph'):
            rows.append(f'all_k!({fl}, {ty});')
    # Path is not re-exported at the flavour root in every flavour; probe it through a search result type
    src = PROBE_RS.replace('ROWS', '\n    '.join(rows))
    open(os.path.join(d, 'src', 'main.rs'), 'w').write(src)
    open(os.path.join(d, 'Cargo.toml'), 'w').write(
        '[package]\nname = "c16-probe"\nversion = "0.1.0"\nedition = "2021"\n\n[workspace]\n\n[dependencies]\ngdsl = { path = "%s" }\n' % build.REPO)
    lock = os.path.join(build.REPO, 'Cargo.lock')
    if os.path.exists(lock) and not os.path.exists(os.path.join(d, 'Cargo.lock')):
        open(os.path.join(d, 'Cargo.lock'), 'w').write(open(lock).read())
    env = dict(build.ENV, CARGO_TARGET_DIR=os.path.join(build.WORK, 'c16-target'), RUSTFLAGS='-Awarnings')
    r = subprocess.run(['cargo', 'run', '--offline', '--quiet'], cwd=d, env=env, stdout=subprocess.PIPE, stderr=subprocess.PIPE, text=True)
    if r.returncode != 0:
        return None, r.stderr[-3000:]
    table = {}
    markers = {}
    for l in r.stdout.split('\n'):
        p = l.split()
        if len(p) == 4 and p[0] == 'marker':
            markers[p[1]] = (p[2] == 'true', p[3] == 'true')
        elif len(p) == 7:
            table[(p[0], p[1], p[2], p[3], p[4])] = (p[5] == 'true', p[6] == 'true')
    return (table, markers), None


INV = {v: k for k, v in MARK.items()}


def run(prop, tier, seed):
    rep = Report(prop, tier, seed)
    t0 = time.time()
    queries = 0
    solver_s = 0.0
    findings = []          # (flavour, type, trait, kind, assignment)
    encs = {}
    obligations = []
    for fl in SYNC + PLAIN:
        try:
            F = Flavour(fl)
            enc = Enc(F)
            kinds = CLAIMED['sync' if fl in SYNC else 'plain']
            for ty in kinds:
                if ty in F.structs:
                    enc.var(ty, 'Send')
                    enc.var(ty, 'Sync')
            post = enc.postfix()
        except ValueError as e:
            rep.inconclusive.append({'inconclusive': f'auto-trait encoder: {e}', 'item': fl})
            continue
        encs[fl] = (F, enc, post)
        allsix = z3.And(list(enc.leaf.values()))
        for ty in kinds:
            if ty not in F.structs:
                continue
            s = z3.Solver()
            s.add(post)
            xs, xy = enc.var(ty, 'Send'), enc.var(ty, 'Sync')
            if fl in SYNC:
                # only-if: Send or Sync for some assignment that lacks one of the six facts
                for tr, x in (('Send', xs), ('Sync', xy)):
                    obligations.append(f'{fl}::{ty}: {tr} only if K, N, E are all Send + Sync')
                    s.push()
                    for _ in range(8):          # enumerate a few distinct violating assignments
                        t = time.time()
                        r = s.check(x, z3.Not(allsix))
                        solver_s += time.time() - t
                        queries += 1
                        if r != z3.sat:
                            break
                        m = s.model()
                        asg = tuple((z3.is_true(m.eval(enc.leaf[(p, 'Send')], True)), z3.is_true(m.eval(enc.leaf[(p, 'Sync')], True))) for p in PARAMS)
                        findings.append({'flavour': fl, 'type': ty, 'trait': tr, 'kind': 'too-permissive', 'assignment': [MARK[a] for a in asg]})
                        s.add(z3.Or([l != m.eval(l, True) for l in enc.leaf.values()]))
                    s.pop()
                # if: with all six, both hold (some post-fixpoint contains them)
                t = time.time()
                r = s.check(allsix, xs, xy)
                solver_s += time.time() - t
                queries += 1
                obligations.append(f'{fl}::{ty}: Send and Sync whenever K, N, E are all Send + Sync')
                if r != z3.sat:
                    findings.append({'flavour': fl, 'type': ty, 'trait': 'Send+Sync', 'kind': 'too-restrictive', 'assignment': ['SS', 'SS', 'SS']})
                # ... also when a payload borrows (is Send + Sync but does not outlive 'static)
                for p in PARAMS:
                    t = time.time()
                    r = s.check(allsix, z3.Not(enc.outlives[p]), xs, xy)
                    solver_s += time.time() - t
                    queries += 1
                    if r != z3.sat:
                        findings.append({'flavour': fl, 'type': ty, 'trait': 'Send+Sync', 'kind': 'too-restrictive-lifetime', 'assignment': ['SS', 'SS', 'SS'], 'borrowed': p})
                obligations.append(f'{fl}::{ty}: Send and Sync also for borrowed (non-static) payloads that are Send + Sync')
            else:
                for tr, x in (('Send', xs), ('Sync', xy)):
                    t = time.time()
                    r = s.check(x)
                    solver_s += time.time() - t
                    queries += 1
                    obligations.append(f'{fl}::{ty}: never {tr}')
                    if r == z3.sat:
                        m = s.model()
                        asg = tuple((z3.is_true(m.eval(enc.leaf[(p, 'Send')], True)), z3.is_true(m.eval(enc.leaf[(p, 'Sync')], True))) for p in PARAMS)
                        findings.append({'flavour': fl, 'type': ty, 'trait': tr, 'kind': 'plain-type-shareable', 'assignment': [MARK[a] for a in asg]})
    # rustc's verdict for every assignment (validates the axioms; replays counterexamples)
    probe, err = run_probe()
    agree = disagree = 0
    mism = []
    if probe is None:
        rep.inconclusive.append({'inconclusive': 'probe crate does not compile: ' + (err or '')[-400:], 'item': ''})
        table = {}
    else:
        table, markers = probe
        if markers != {'SS': (True, True), 'S_': (True, False), '_Y': (False, True), '__': (False, False)}:
            rep.inconclusive.append({'inconclusive': f'marker types do not have the intended auto traits: {markers}', 'item': ''})
        for (fl, ty, k, n, e), (ns, ny) in sorted(table.items()):
            if fl not in encs or ty not in encs[fl][0].structs:
                continue
            F, enc, post = encs[fl]
            s = z3.Solver()
            s.add(post)
            s.add(leaf_assign(enc, INV[k], INV[n], INV[e]))
            t = time.time()
            ps = s.check(enc.var(ty, 'Send')) == z3.sat
            py = s.check(enc.var(ty, 'Sync')) == z3.sat
            solver_s += time.time() - t
            queries += 2
            if (ps, py) == (ns, ny):
                agree += 1
            else:
                disagree += 1
                mism.append({'flavour': fl, 'type': ty, 'K': k, 'N': n, 'E': e, 'encoder': [ps, py], 'rustc': [ns, ny]})
    rep.validated = agree
    for m in mism[:5]:
        rep.validation_mismatch.append(m)
    # the property stated directly on rustc's table (native confirmation of every counterexample, and a
    # safety net should an axiom be wrong in the permissive direction)
    native_viol = []
    for (fl, ty, k, n, e), (ns, ny) in sorted(table.items()):
        allss = (k, n, e) == ('SS', 'SS', 'SS')
        if fl in SYNC:
            if (ns or ny) and not allss:
                native_viol.append({'flavour': fl, 'type': ty, 'trait': 'Send' if ns else 'Sync', 'kind': 'too-permissive', 'assignment': [k, n, e]})
            if allss and not (ns and ny):
                native_viol.append({'flavour': fl, 'type': ty, 'trait': 'Send+Sync', 'kind': 'too-restrictive', 'assignment': [k, n, e]})
        elif ns or ny:
            native_viol.append({'flavour': fl, 'type': ty, 'trait': 'Send' if ns else 'Sync', 'kind': 'plain-type-shareable', 'assignment': [k, n, e]})
    life = run_lifetime_probe()
    if life is None:
        rep.inconclusive.append({'inconclusive': 'lifetime probe crate fails to compile for a reason that is not a lifetime bound', 'item': ''})
    else:
        for fl, ty in life:
            for f in findings:
                if f['kind'] == 'too-restrictive-lifetime' and (fl == '?' or (f['flavour'], f['type']) == (fl, ty)):
                    native_viol.append({'flavour': f['flavour'], 'type': f['type'], 'trait': 'Send+Sync', 'kind': 'too-restrictive-lifetime', 'assignment': ['SS', 'SS', 'SS']})
            if not any(f['kind'] == 'too-restrictive-lifetime' for f in findings):
                native_viol.append({'flavour': fl, 'type': ty, 'trait': 'Send+Sync', 'kind': 'too-restrictive-lifetime', 'assignment': ['SS', 'SS', 'SS']})
    known = load_known()
    os.makedirs(os.path.join(build.WORK, 'replays'), exist_ok=True)
    groups = {}
    for f in findings:
        sig = {'flavour': f['flavour'], 'type': f['type'], 'kind': f['kind'], 'trait': f['trait']}
        groups.setdefault(json.dumps(sig, sort_keys=True), []).append(f)
    nv = 0
    for key, fs in sorted(groups.items()):
        sig = json.loads(key)
        confirmed = [f for f in fs if any(v['flavour'] == f['flavour'] and v['type'] == f['type'] and v['assignment'] == f['assignment'] for v in native_viol)]
        rep.replays += len(fs)
        if not confirmed:
            rep.unconfirmed.append({'sig': sig, 'assignment': fs[0]['assignment']})
            continue
        k = match_known(known, prop, sig)
        if k is not None:
            rep.known_hit[k['what']] = rep.known_hit.get(k['what'], 0) + len(fs)
            continue
        nv += 1
        path = os.path.join(build.WORK, 'replays', f'C16-{nv}.json')
        f = confirmed[0]
        json.dump({'property': prop, 'signature': sig, 'assignment_K_N_E': f['assignment'],
                   'legend': 'SS = Send+Sync, S_ = Send only (Cell<u8>), _Y = Sync only (MutexGuard), __ = neither (*const u8)',
                   'message': f"{f['flavour']}::{f['type']}<K,N,E> is {f['trait']} for K,N,E = {f['assignment']} ({f['kind']})"}, open(path, 'w'), indent=1)
        rep.violations.append(path)
        print(f"  counterexample: {f['flavour']}::{f['type']} is {f['trait']} with K,N,E = {f['assignment']} ({f['kind']}); rustc agrees")
    # a native violation the encoder did not predict means an axiom is wrong: inconclusive, with the witness
    for v in native_viol:
        if not any(f['flavour'] == v['flavour'] and f['type'] == v['type'] and f['kind'] == v['kind'] for f in findings):
            rep.inconclusive.append({'inconclusive': f'rustc reports a violation the encoder did not predict: {v}', 'item': ''})
            break
    rep.findings = findings
    rep.paths = 64 * sum(len(CLAIMED['sync' if fl in SYNC else 'plain']) for fl in encs)
    rep.solver_calls = queries
    rep.asserts = len(obligations)
    rep.samples = obligations[:4] + [f for f in findings[:2]]
    rep.bounds = {'leaf_facts': 6, 'assignments': 64, 'exhaustive': True, 'types': {'sync flavours': CLAIMED['sync'], 'plain flavours': CLAIMED['plain']},
                  'instantiation_classes': 'each of K, N, E ranges over {Send+Sync, Send only, Sync only, neither}',
                  'outside': 'search objects and iterators (they hold &mut dyn FnMut / references and are not part of the property); Path in the probe'}
    rep.extra['coverage'] = {'exhaustive': True, 'obligations': len(obligations), 'obligation_list': obligations,
                             'axioms_used': sorted(set().union(*[e[1].rules_used for e in encs.values()])) if encs else [],
                             'structs_parsed': {fl: {n: f[1] for n, f in e[0].structs.items()} for fl, e in encs.items()},
                             'explicit_impls': {fl: [[t, n, {p: sorted(b) for p, b in bs.items()}] for t, n, bs in e[0].impls] for fl, e in encs.items()},
                             'rustc_probe_rows': len(table), 'rustc_rows_agreeing_with_encoder': agree, 'rustc_rows_disagreeing': disagree,
                             'solver_time_s': round(solver_s, 3)}
    return rep.finish(
        assumptions=['std auto-trait rules listed in coverage.axioms_used', 'auto traits are coinductive: T has the trait iff some post-fixpoint of the rules contains it',
                     'struct definitions and unsafe impl headers are read from the current source by a small parser; all uses are Name<K, N, E>',
                     'the probe crate tells rustc\'s actual verdict through inherent-method-over-trait-method resolution'],
        rule='obligation = (flavour, type, direction); z3 decides it over all 64 assignments of the six leaf facts; every assignment x type x trait is also compared with rustc\'s verdict from a compiled probe')
