//! Native replayer: interprets the scenario language of /verif/DESIGN.md §4 against the
//! compiled gdsl of the current /repo tree.  One JSON scenario per input line, one JSON
//! array of observations per output line.  A step that does not return within the
//! watchdog time yields {"hang":..} and ends the process with status 3.
#![allow(clippy::all)]
#![allow(unused_macros, unused_variables, dead_code, unused_mut)]

use serde_json::{json, Value};
use std::cell::RefCell;
use std::io::{BufRead, Write};
use std::panic::{catch_unwind, AssertUnwindSafe};
use std::sync::mpsc;
use std::time::Duration;

#[cfg(not(coarse_hash))]
type K = usize;
/// `--cfg coarse_hash`: a key type whose Hash is as coarse as the contract allows (every key hashes alike, Eq is exact).
/// Used to confirm counterexamples that rest on two different keys having the same hash.
#[cfg(coarse_hash)]
#[derive(Clone, Copy, PartialEq, Eq, Debug, PartialOrd, Ord)]
pub struct K(pub usize);
#[cfg(coarse_hash)]
mod coarse_key {
    use super::K;
    impl std::hash::Hash for K {
        fn hash<H: std::hash::Hasher>(&self, s: &mut H) {
            0usize.hash(s)
        }
    }
    impl std::fmt::Display for K {
        fn fmt(&self, f: &mut std::fmt::Formatter) -> std::fmt::Result {
            write!(f, "{}", self.0)
        }
    }
    impl serde::Serialize for K {
        fn serialize<S: serde::Serializer>(&self, s: S) -> Result<S::Ok, S::Error> {
            s.serialize_u64(self.0 as u64)
        }
    }
    impl<'de> serde::Deserialize<'de> for K {
        fn deserialize<D: serde::Deserializer<'de>>(d: D) -> Result<Self, D::Error> {
            Ok(K(u64::deserialize(d)? as usize))
        }
    }
    impl From<usize> for K {
        fn from(x: usize) -> K {
            K(x)
        }
    }
    impl PartialEq<usize> for K {
        fn eq(&self, o: &usize) -> bool {
            self.0 == *o
        }
    }
}
type N = Tracked;
type E = i64;

// Node payload that counts its own drops (C19).  Clones and deserialised values are untracked (id 0).
static NEXT_ID: std::sync::atomic::AtomicUsize = std::sync::atomic::AtomicUsize::new(1);
static DROPS: std::sync::Mutex<Vec<usize>> = std::sync::Mutex::new(Vec::new());

#[derive(Debug)]
pub struct Tracked {
    pub v: i64,
    pub id: usize,
}

impl Tracked {
    pub fn new(v: i64) -> Self {
        let id = NEXT_ID.fetch_add(1, std::sync::atomic::Ordering::SeqCst);
        let mut d = DROPS.lock().unwrap_or_else(|e| e.into_inner());
        if d.len() <= id {
            d.resize(id + 1, 0);
        }
        Tracked { v, id }
    }
    pub fn drops_of(id: usize) -> usize {
        let d = DROPS.lock().unwrap_or_else(|e| e.into_inner());
        d.get(id).copied().unwrap_or(0)
    }
}
impl Clone for Tracked {
    fn clone(&self) -> Self {
        Tracked { v: self.v, id: 0 }
    }
}
impl Drop for Tracked {
    fn drop(&mut self) {
        if self.id > 0 {
            let mut d = DROPS.lock().unwrap_or_else(|e| e.into_inner());
            if d.len() <= self.id {
                d.resize(self.id + 1, 0);
            }
            d[self.id] += 1;
        }
    }
}
impl PartialEq for Tracked {
    fn eq(&self, o: &Self) -> bool {
        self.v == o.v
    }
}
impl Eq for Tracked {}
impl PartialOrd for Tracked {
    fn partial_cmp(&self, o: &Self) -> Option<std::cmp::Ordering> {
        Some(self.v.cmp(&o.v))
    }
}
impl Ord for Tracked {
    fn cmp(&self, o: &Self) -> std::cmp::Ordering {
        self.v.cmp(&o.v)
    }
}
impl std::fmt::Display for Tracked {
    fn fmt(&self, f: &mut std::fmt::Formatter) -> std::fmt::Result {
        write!(f, "{}", self.v)
    }
}
impl serde::Serialize for Tracked {
    fn serialize<S: serde::Serializer>(&self, s: S) -> Result<S::Ok, S::Error> {
        s.serialize_i64(self.v)
    }
}
impl<'de> serde::Deserialize<'de> for Tracked {
    fn deserialize<D: serde::Deserializer<'de>>(d: D) -> Result<Self, D::Error> {
        let v = i64::deserialize(d)?;
        Ok(Tracked { v, id: 0 })
    }
}

fn us(v: &Value) -> usize {
    v.as_u64().expect("usize") as usize
}
/// a key of the scenario
fn ky(v: &Value) -> K {
    K::from(us(v))
}
fn i6(v: &Value) -> i64 {
    v.as_i64().expect("i64")
}
fn panic_msg(e: Box<dyn std::any::Any + Send>) -> String {
    if let Some(s) = e.downcast_ref::<&str>() {
        s.to_string()
    } else if let Some(s) = e.downcast_ref::<String>() {
        s.clone()
    } else {
        "panic".to_string()
    }
}

/// Forced thread schedules (C17): scenario threads park at every lock point of gdsl (cfg gdsl_verif) and
/// proceed only when the replayed schedule says so.
pub mod sched {
    use std::cell::Cell;
    use std::sync::{Condvar, Mutex};
    use std::time::{Duration, Instant};

    thread_local! { pub static TID: Cell<usize> = Cell::new(0); }

    pub struct St {
        pub parked: Vec<bool>,
        pub permit: Vec<bool>,
        pub done: Vec<bool>,
        pub free_run: bool,
    }
    pub static ST: Mutex<St> = Mutex::new(St { parked: vec![], permit: vec![], done: vec![], free_run: true });
    pub static CV: Condvar = Condvar::new();

    pub fn reset(n: usize) {
        let mut s = ST.lock().unwrap_or_else(|e| e.into_inner());
        s.parked = vec![false; n + 1];
        s.permit = vec![false; n + 1];
        s.done = vec![false; n + 1];
        s.free_run = false;
    }

    pub fn park() {
        let tid = TID.with(|t| t.get());
        if tid == 0 {
            return;
        }
        let mut s = ST.lock().unwrap_or_else(|e| e.into_inner());
        if s.free_run {
            return;
        }
        s.parked[tid] = true;
        CV.notify_all();
        while !s.permit[tid] && !s.free_run {
            s = CV.wait(s).unwrap_or_else(|e| e.into_inner());
        }
        s.permit[tid] = false;
        s.parked[tid] = false;
    }

    pub fn hook(_addr: usize, _write: bool) {
        park();
    }

    pub fn finished() {
        let tid = TID.with(|t| t.get());
        let mut s = ST.lock().unwrap_or_else(|e| e.into_inner());
        if tid < s.done.len() {
            s.done[tid] = true;
        }
        CV.notify_all();
    }

    /// let thread `tid` take one step of the schedule; returns when it parks again, finishes, or `ms` elapse
    pub fn step(tid: usize, ms: u64) {
        let mut s = ST.lock().unwrap_or_else(|e| e.into_inner());
        if s.done[tid] {
            return;
        }
        let deadline = Instant::now() + Duration::from_millis(ms);
        if s.parked[tid] {
            s.permit[tid] = true;
            s.parked[tid] = false;
            CV.notify_all();
        }
        loop {
            if s.done[tid] || (s.parked[tid] && !s.permit[tid]) {
                return;
            }
            let now = Instant::now();
            if now >= deadline {
                return;
            }
            let (g, _) = CV.wait_timeout(s, deadline - now).unwrap_or_else(|e| e.into_inner());
            s = g;
        }
    }

    pub fn wait_all_parked(n: usize, ms: u64) {
        let mut s = ST.lock().unwrap_or_else(|e| e.into_inner());
        let deadline = Instant::now() + Duration::from_millis(ms);
        loop {
            if (1..=n).all(|t| s.parked[t] || s.done[t]) {
                return;
            }
            let now = Instant::now();
            if now >= deadline {
                return;
            }
            let (g, _) = CV.wait_timeout(s, deadline - now).unwrap_or_else(|e| e.into_inner());
            s = g;
        }
    }

    /// release everybody and wait for completion; false = some thread never finished
    pub fn free_run_and_wait(n: usize, ms: u64) -> bool {
        let mut s = ST.lock().unwrap_or_else(|e| e.into_inner());
        s.free_run = true;
        CV.notify_all();
        let deadline = Instant::now() + Duration::from_millis(ms);
        loop {
            if (1..=n).all(|t| s.done[t]) {
                return true;
            }
            let now = Instant::now();
            if now >= deadline {
                return false;
            }
            let (g, _) = CV.wait_timeout(s, deadline - now).unwrap_or_else(|e| e.into_inner());
            s = g;
        }
    }
}

pub struct FilterTable {
    rows: Vec<(K, K, E, bool)>,
    default: bool,
}

impl FilterTable {
    fn parse(v: &Value) -> Self {
        let mut rows = vec![];
        let mut default = true;
        if let Some(t) = v.get("table").and_then(|t| t.as_array()) {
            for r in t {
                rows.push((ky(&r[0]), ky(&r[1]), i6(&r[2]), r[3].as_bool().unwrap()));
            }
            default = v.get("default").and_then(|d| d.as_bool()).unwrap_or(true);
        }
        FilterTable { rows, default }
    }
    fn lookup(&self, u: K, v: K, e: E) -> bool {
        for (a, b, c, r) in &self.rows {
            if *a == u && *b == v && *c == e {
                return *r;
            }
        }
        self.default
    }
}

include!("flavour.rs");

fn attr_pairs(v: &Value) -> Vec<(String, String)> {
    v.as_array().unwrap().iter().map(|p| (p[0].as_str().unwrap().to_string(), p[1].as_str().unwrap().to_string())).collect()
}

macro_rules! dot_attr_impl {
    () => {
        fn dot_attr(&self, spec: &Value) -> Value {
            let g = self.graph.as_ref().unwrap();
            let gattr = |_: &Graph<K, N, E>| -> Option<Vec<(String, String)>> {
                if spec["gattr"].is_null() { None } else { Some(attr_pairs(&spec["gattr"])) }
            };
            let nattr = |n: &Node<K, N, E>| -> Option<Vec<(String, String)>> {
                if let Some(rows) = spec["nattr"].as_array() {
                    for r in rows {
                        if ky(&r[0]) == *n.key() { return Some(attr_pairs(&r[1])); }
                    }
                }
                None
            };
            let eattr = |u: &Node<K, N, E>, v: &Node<K, N, E>, _e: &E| -> Option<Vec<(String, String)>> {
                if let Some(rows) = spec["eattr"].as_array() {
                    for r in rows {
                        if ky(&r[0]) == *u.key() && ky(&r[1]) == *v.key() { return Some(attr_pairs(&r[2])); }
                    }
                }
                None
            };
            json!(g.to_dot_with_attr(&gattr, &nattr, &eattr))
        }
    };
}

macro_rules! directed_graph_steps {
    () => {
        impl World {
            dot_attr_impl!();
            fn step_graph_flavour(&self, op: &str, a: &Vec<Value>) -> Value {
                let g = self.graph.as_ref().unwrap();
                match op {
                    "g_roots" => json!(g.roots().iter().map(|n| self.alias_of(n)).collect::<Vec<_>>()),
                    "g_leaves" => json!(g.leaves().iter().map(|n| self.alias_of(n)).collect::<Vec<_>>()),
                    "g_scc" => json!(g.scc().iter().map(|c| c.iter().map(|n| *n.key()).collect::<Vec<_>>()).collect::<Vec<_>>()),
                    "g_to_dot_attr" => self.dot_attr(&a[1]),
                    x => json!({"error": format!("unknown step {}", x)}),
                }
            }
        }
    };
}

mod fl_digraph {
    use super::*;
    use gdsl::digraph::*;
    flavour_impl!(directed, plain);
    directed_graph_steps!();
}
mod fl_sync_digraph {
    use super::*;
    use gdsl::sync_digraph::*;
    flavour_impl!(directed, sync);
    directed_graph_steps!();
}
mod fl_ungraph {
    use super::*;
    use gdsl::ungraph::*;
    flavour_impl!(undirected, plain);
    impl World {
        dot_attr_impl!();
        fn step_graph_flavour(&self, op: &str, a: &Vec<Value>) -> Value {
            match op {
                "g_to_dot_attr" => self.dot_attr(&a[1]),
                x => json!({"error": format!("unknown step {}", x)}),
            }
        }
    }
}
mod fl_sync_ungraph {
    use super::*;
    use gdsl::sync_ungraph::*;
    flavour_impl!(undirected, sync);
    impl World {
        fn step_graph_flavour(&self, op: &str, a: &Vec<Value>) -> Value {
            json!({"error": format!("unknown step {}", op)})
        }
    }
}

fn run_scenario(scen: Value, tx: mpsc::Sender<Value>) {
    let fl = scen["flavour"].as_str().unwrap().to_string();
    match fl.as_str() {
        "digraph" => fl_digraph::run(&scen, &tx),
        "sync_digraph" => fl_sync_digraph::run(&scen, &tx),
        "ungraph" => fl_ungraph::run(&scen, &tx),
        "sync_ungraph" => fl_sync_ungraph::run(&scen, &tx),
        _ => {
            let _ = tx.send(json!({"error": "flavour"}));
        }
    }
    let _ = tx.send(json!("__end__"));
}

fn main() {
    std::panic::set_hook(Box::new(|_| {}));
    #[cfg(gdsl_verif)]
    gdsl::verif_hook::install(Some(sched::hook));
    let watchdog_ms: u64 = std::env::var("REPLAY_WATCHDOG_MS").ok().and_then(|s| s.parse().ok()).unwrap_or(3000);
    let stdin = std::io::stdin();
    let stdout = std::io::stdout();
    for line in stdin.lock().lines() {
        let line = line.unwrap();
        if line.trim().is_empty() {
            continue;
        }
        let scen: Value = serde_json::from_str(&line).expect("scenario json");
        let (tx, rx) = mpsc::channel();
        let h = std::thread::Builder::new()
            .stack_size(64 << 20)
            .spawn(move || run_scenario(scen, tx))
            .unwrap();
        let mut obs: Vec<Value> = vec![];
        let mut hung = false;
        loop {
            match rx.recv_timeout(Duration::from_millis(watchdog_ms)) {
                Ok(v) => {
                    if v == json!("__end__") {
                        break;
                    }
                    if v.get("hang").is_some() {
                        // the scenario's own deadlock detection fired: blocked threads hold locks, stop here
                        obs.push(v);
                        hung = true;
                        break;
                    }
                    obs.push(v);
                }
                Err(mpsc::RecvTimeoutError::Timeout) => {
                    obs.push(json!({"hang": "step did not return within the watchdog time"}));
                    hung = true;
                    break;
                }
                Err(mpsc::RecvTimeoutError::Disconnected) => break,
            }
        }
        let mut o = stdout.lock();
        writeln!(o, "{}", serde_json::to_string(&obs).unwrap()).unwrap();
        o.flush().unwrap();
        if hung {
            std::process::exit(3);
        }
        let _ = h.join();
    }
}


/// CBOR encoding of [[node rows], [edge rows]] (integers only) in which the header of the lists named in `announce`
/// claims 2^64-1 elements.
pub fn cbor_announce(outer: &[serde_json::Value], announce: &serde_json::Value) -> Vec<u8> {
    fn head(out: &mut Vec<u8>, major: u8, n: u64) {
        if n < 24 { out.push((major << 5) | n as u8); }
        else if n < 256 { out.push((major << 5) | 24); out.push(n as u8); }
        else if n < 65536 { out.push((major << 5) | 25); out.extend_from_slice(&(n as u16).to_be_bytes()); }
        else if n < (1u64 << 32) { out.push((major << 5) | 26); out.extend_from_slice(&(n as u32).to_be_bytes()); }
        else { out.push((major << 5) | 27); out.extend_from_slice(&n.to_be_bytes()); }
    }
    fn val(out: &mut Vec<u8>, v: &serde_json::Value) {
        match v {
            serde_json::Value::Array(a) => { head(out, 4, a.len() as u64); for x in a { val(out, x); } }
            serde_json::Value::Number(n) => {
                let i = n.as_i64().unwrap();
                if i >= 0 { head(out, 0, i as u64) } else { head(out, 1, (-1 - i) as u64) }
            }
            serde_json::Value::String(s) => { head(out, 3, s.len() as u64); out.extend_from_slice(s.as_bytes()); }
            x => panic!("cbor_announce: {}", x),
        }
    }
    let mut out = vec![];
    head(&mut out, 4, outer.len() as u64);
    for (i, el) in outer.iter().enumerate() {
        let name = if i == 0 { "nodes" } else { "edges" };
        if announce.get(name).and_then(|x| x.as_str()) == Some("huge") && el.is_array() {
            head(&mut out, 4, u64::MAX);
            for x in el.as_array().unwrap() { val(&mut out, x); }
        } else {
            val(&mut out, el);
        }
    }
    out
}
