// One scenario interpreter, stamped out per flavour.  `sel!(kind, {directed code}, {undirected code})`
// picks the flavour-specific piece.

macro_rules! sel {
    (directed, { $($a:tt)* }, { $($b:tt)* }) => { $($a)* };
    (undirected, { $($a:tt)* }, { $($b:tt)* }) => { $($b)* };
}

macro_rules! sel2 {
    (sync, { $($a:tt)* }, { $($b:tt)* }) => { $($a)* };
    (plain, { $($a:tt)* }, { $($b:tt)* }) => { $($b)* };
}

macro_rules! flavour_impl {
    ($kind:ident, $sync:ident) => {
        pub enum Kept {
            Node(Option<Node<K, N, E>>),
            Path(Option<Vec<Edge<K, N, E>>>),
            Nodes(Vec<Node<K, N, E>>),
            Edges(Vec<Edge<K, N, E>>),
        }

        pub struct World {
            pub nodes: Vec<Node<K, N, E>>,
            pub ids: Vec<usize>,
            pub graph: Option<Graph<K, N, E>>,
            pub kept: RefCell<Vec<(String, Kept)>>,
        }

        fn thread_step(nodes: &[Node<K, N, E>], st: &Value) -> Value {
            let a = st.as_array().unwrap();
            match a[0].as_str().unwrap() {
                "connect" => { nodes[us(&a[1])].connect(&nodes[us(&a[2])], i6(&a[3])); json!("ok") }
                "try_connect" => match nodes[us(&a[1])].try_connect(&nodes[us(&a[2])], i6(&a[3])) { Ok(()) => json!("ok"), Err(e) => json!(format!("err:{:?}", e)) },
                "disconnect" => match nodes[us(&a[1])].disconnect(&ky(&a[2])) { Ok(x) => json!(["ok", x]), Err(e) => json!(format!("err:{:?}", e)) },
                "isolate" => { nodes[us(&a[1])].isolate(); json!("ok") }
                "degq" => { let n = &nodes[us(&a[1])]; sel!($kind, { json!([n.out_degree(), n.in_degree()]) }, { json!([n.degree()]) }) }
                "search" => {
                    let root = &nodes[us(&a[1]["root"])];
                    let r = root.bfs().search_path();
                    json!({"result": r.map(|p| Value::Array(p.edges.iter().map(edge_json).collect())), "calls": []})
                }
                x => json!({"error": format!("thread step {}", x)}),
            }
        }

        fn edge_json(e: &Edge<K, N, E>) -> Value {
            // through the accessor methods, the API a user reads an edge with
            json!([*e.source().key(), *e.target().key(), *e.value()])
        }

        impl World {
            fn handle(&self, h: &Value) -> Node<K, N, E> {
                if h.is_u64() {
                    return self.nodes[us(h)].clone();
                }
                let a = h.as_array().unwrap();
                let kind = a[0].as_str().unwrap();
                match kind {
                    "clone" => return self.handle(&a[1]).clone(),
                    "graph" => return self.graph.as_ref().unwrap().get(&ky(&a[1])).unwrap(),
                    "found" => {
                        let base = self.handle(&a[1]);
                        let k = *self.nodes[us(&a[2])].key();
                        let r = base.bfs().target(&k).search().unwrap();
                        return r;
                    }
                    _ => {}
                }
                sel!($kind, {
                    match kind {
                        "out" => self.handle(&a[1]).iter_out().nth(us(&a[2])).unwrap().1.clone(),
                        "in" => self.handle(&a[1]).iter_in().nth(us(&a[2])).unwrap().0.clone(),
                        "find_out" => self.handle(&a[1]).find_outbound(&ky(&a[2])).unwrap(),
                        "find_in" => self.handle(&a[1]).find_inbound(&ky(&a[2])).unwrap(),
                        x => panic!("handle kind {}", x),
                    }
                }, {
                    match kind {
                        "adj" => self.handle(&a[1]).iter().nth(us(&a[2])).unwrap().1.clone(),
                        "find_adj" => self.handle(&a[1]).find_adjacent(&ky(&a[2])).unwrap(),
                        x => panic!("handle kind {}", x),
                    }
                })
            }

            fn with_handle<R>(&self, h: &Value, f: impl FnOnce(&Node<K, N, E>) -> R) -> R {
                if h.is_u64() {
                    f(&self.nodes[us(h)])
                } else {
                    let n = self.handle(h);
                    f(&n)
                }
            }

            fn dump(&self) -> Value {
                self.dump_nodes(&self.nodes.iter().collect::<Vec<_>>())
            }

            fn dump_nodes(&self, which: &[&Node<K, N, E>]) -> Value {
                let keys: Vec<K> = self.nodes.iter().map(|n| *n.key()).collect();
                Self::dump_nodes_with(which, &keys)
            }

            fn dump_nodes_with(which: &[&Node<K, N, E>], keys: &[K]) -> Value {
                let mut out = vec![];
                for n in which {
                    let mut self_ok = true;
                    let ic: Vec<bool> = keys.iter().map(|k| n.is_connected(k)).collect();
                    sel!($kind, {
                        let o: Vec<Value> = n.iter_out().map(|Edge(u, v, e)| {
                            if u.key() != n.key() { self_ok = false; }
                            json!([*v.key(), e])
                        }).collect();
                        let i: Vec<Value> = n.iter_in().map(|Edge(u, v, e)| {
                            if v.key() != n.key() { self_ok = false; }
                            json!([*u.key(), e])
                        }).collect();
                        let fo: Vec<Option<K>> = keys.iter().map(|k| n.find_outbound(k).map(|x| *x.key())).collect();
                        let fi: Vec<Option<K>> = keys.iter().map(|k| n.find_inbound(k).map(|x| *x.key())).collect();
                        out.push(json!({
                            "out": o, "in": i, "self_ok": self_ok,
                            "out_degree": n.out_degree(), "in_degree": n.in_degree(),
                            "is_root": n.is_root(), "is_leaf": n.is_leaf(), "is_orphan": n.is_orphan(),
                            "is_connected": ic, "find_out": fo, "find_in": fi,
                            "key": *n.key(), "value": Self::nval(n),
                        }));
                    }, {
                        let o: Vec<Value> = n.iter().map(|Edge(u, v, e)| {
                            if u.key() != n.key() { self_ok = false; }
                            json!([*v.key(), e])
                        }).collect();
                        let fa: Vec<Option<K>> = keys.iter().map(|k| n.find_adjacent(k).map(|x| *x.key())).collect();
                        out.push(json!({
                            "adj": o, "self_ok": self_ok,
                            "degree": n.degree(), "is_orphan": n.is_orphan(),
                            "is_connected": ic, "find_adj": fa,
                            "key": *n.key(), "value": Self::nval(n),
                        }));
                    });
                }
                Value::Array(out)
            }

            fn deserialize_doc(doc: &Value) -> Value {
                // 'err' elements become an ill-typed element; absent elements shorten the outer sequence
                let mut outer: Vec<Value> = vec![];
                let mut order: Vec<K> = vec![];
                if !doc["nodes"].is_null() {
                    if doc["nodes"].as_str() == Some("err") { outer.push(json!("ill-typed")); } else {
                        for r in doc["nodes"].as_array().unwrap() { let k = ky(&r[0]); if !order.contains(&k) { order.push(k); } }
                        outer.push(doc["nodes"].clone());
                    }
                    if !doc["edges"].is_null() {
                        if doc["edges"].as_str() == Some("err") { outer.push(json!("ill-typed")); } else { outer.push(doc["edges"].clone()); }
                    }
                }
                if doc.get("announce").map(|a| !a.is_null()).unwrap_or(false) {
                    // CBOR only (JSON has no length prefix): re-encode by hand with lying array headers
                    let bytes = crate::cbor_announce(&outer, &doc["announce"]);
                    let g3: Result<Graph<K, N, E>, _> = serde_cbor::from_slice(&bytes);
                    return match g3 { Ok(_) => json!({"result": "ok"}), Err(_) => json!({"result": "err"}) };
                }
                let tail = doc.get("tail").and_then(|t| t.as_str()).unwrap_or("");
                if tail == "extra" { outer.push(json!(0)); }
                let mut text = serde_json::to_string(&Value::Array(outer.clone())).unwrap();
                if tail == "err" { text.pop(); }                       // the closing bracket is cut off
                let g2: Result<Graph<K, N, E>, _> = serde_json::from_str(&text);
                let mut bytes = serde_cbor::to_vec(&Value::Array(outer)).unwrap();
                if tail == "err" { bytes[0] += 1; }                     // array(n) announced as array(n+1): the input ends early
                let g3: Result<Graph<K, N, E>, _> = serde_cbor::from_slice(&bytes);
                let view = |gg: &Graph<K, N, E>| -> Value {
                    let ms: Vec<Node<K, N, E>> = order.iter().filter_map(|k| gg.get(k)).collect();
                    let keys: Vec<K> = ms.iter().map(|n| *n.key()).collect();
                    json!({"result": "ok", "len": gg.len(), "members": Self::dump_nodes_with(&ms.iter().collect::<Vec<_>>(), &keys)})
                };
                match (g2, g3) {
                    (Ok(a), Ok(b)) => { let (va, vb) = (view(&a), view(&b)); let mut o = va.clone(); o["cbor_same"] = json!(va == vb); o }
                    (Err(_), Err(_)) => json!({"result": "err"}),
                    (Ok(_), Err(e)) => json!({"result": "ok", "cbor_same": false, "cbor_error": format!("{}", e)}),
                    (Err(e), Ok(_)) => json!({"result": "err", "cbor_same": false, "json_error": format!("{}", e)}),
                }
            }

            fn alias_of(&self, n: &Node<K, N, E>) -> Option<usize> {
                let p = n.key() as *const K;
                self.nodes.iter().position(|m| m.key() as *const K == p)
            }

            /// the node's value: through value() and through Deref (`*node`), which must agree
            fn nval(n: &Node<K, N, E>) -> Value {
                let a = n.value().v;
                let b = (**n).v;
                if a != b { json!(["deref-differs", a, b]) } else { json!(a) }
            }

            fn node_obs(&self, n: &Node<K, N, E>) -> Value {
                json!({"alias": self.alias_of(n), "key": *n.key(), "value": Self::nval(n)})
            }

            fn exists_now(&self, lst: &str, owner: K, other: K, val: E) -> bool {
                let n = self.nodes.iter().find(|n| *n.key() == owner).unwrap();
                sel!($kind, {
                    match lst {
                        "out" => n.iter_out().any(|Edge(_, v, e)| *v.key() == other && e == val),
                        "in" => n.iter_in().any(|Edge(u, _, e)| *u.key() == other && e == val),
                        x => panic!("list {}", x),
                    }
                }, {
                    n.iter().any(|Edge(_, v, e)| *v.key() == other && e == val)
                })
            }

            fn run_script(&self, steps: &Value) -> Value {
                let mut out = vec![];
                for st in steps.as_array().unwrap() {
                    out.push(self.step_ro(st).unwrap_or(json!({"error": "script step"})));
                }
                Value::Array(out)
            }

            fn user_loop(&self, spec: &Value) -> Value {
                let kind = spec["kind"].as_str().unwrap();
                let at = us(&spec["at"]);
                let mut yields = vec![];
                let mut sobs = Value::Null;
                let mut n = 0usize;
                self.with_handle(&spec["node"], |node| {
                    macro_rules! drive {
                        ($it:expr, $lst:expr) => {{
                            let mut it = $it;
                            loop {
                                if n == at { sobs = self.run_script(&spec["script"]); }
                                match it.next() {
                                    None => break,
                                    Some(e) => {
                                        let (u, v, x) = (*e.0.key(), *e.1.key(), e.2);
                                        let ok = if $lst == "in" { self.exists_now("in", v, u, x) } else { self.exists_now($lst, u, v, x) };
                                        yields.push(json!([u, v, x, ok]));
                                        n += 1;
                                        if n > 24 { panic!("edge loop does not end"); }
                                    }
                                }
                            }
                        }};
                    }
                    macro_rules! drive_collect {
                        ($it:expr, $lst:expr) => {{
                            let v: Vec<Edge<K, N, E>> = $it.map(|e| {
                                let (u, w, x) = (*e.0.key(), *e.1.key(), e.2);
                                let ok = if $lst == "in" { self.exists_now("in", w, u, x) } else { self.exists_now($lst, u, w, x) };
                                yields.push(json!([u, w, x, ok]));
                                if n == at { sobs = self.run_script(&spec["script"]); }
                                n += 1;
                                if n > 24 { panic!("edge loop does not end"); }
                                e
                            }).collect();
                            drop(v);
                        }};
                    }
                    macro_rules! drive_fold {
                        ($it:expr, $lst:expr) => {{
                            $it.for_each(|e| {
                                let (u, w, x) = (*e.0.key(), *e.1.key(), e.2);
                                let ok = if $lst == "in" { self.exists_now("in", w, u, x) } else { self.exists_now($lst, u, w, x) };
                                yields.push(json!([u, w, x, ok]));
                                if n == at { sobs = self.run_script(&spec["script"]); }
                                n += 1;
                                if n > 24 { panic!("edge loop does not end"); }
                            });
                        }};
                    }
                    sel!($kind, {
                        match kind {
                            "fold_out" => drive_fold!(node.iter_out(), "out"),
                            "fold_in" => drive_fold!(node.iter_in(), "in"),
                            "collect_out" => drive_collect!(node.iter_out(), "out"),
                            "collect_in" => drive_collect!(node.iter_in(), "in"),
                            "iter_out" => drive!(node.iter_out(), "out"),
                            "iter_in" => drive!(node.iter_in(), "in"),
                            "into_iter" => drive!(node.into_iter(), "out"),
                            x => panic!("loop kind {}", x),
                        }
                    }, {
                        match kind {
                            "fold_adj" => drive_fold!(node.iter(), "adj"),
                            "collect_adj" => drive_collect!(node.iter(), "adj"),
                            "iter" => drive!(node.iter(), "adj"),
                            "into_iter" => drive!(node.into_iter(), "adj"),
                            x => panic!("loop kind {}", x),
                        }
                    });
                });
                json!({"yields": yields, "script": sobs})
            }

            fn dump_lite(&self) -> Value {
                Self::dump_lite_of(&self.nodes.iter().collect::<Vec<_>>())
            }

            fn dump_lite_of(which: &[&Node<K, N, E>]) -> Value {
                let mut out = vec![];
                for n in which {
                    sel!($kind, {
                        let o: Vec<Value> = n.iter_out().map(|Edge(_, v, e)| json!([*v.key(), e])).collect();
                        let i: Vec<Value> = n.iter_in().map(|Edge(u, _, e)| json!([*u.key(), e])).collect();
                        out.push(json!({"out": o, "in": i, "key": *n.key(), "value": Self::nval(n)}));
                    }, {
                        let o: Vec<Value> = n.iter().map(|Edge(_, v, e)| json!([*v.key(), e])).collect();
                        out.push(json!({"adj": o, "key": *n.key(), "value": Self::nval(n)}));
                    });
                }
                Value::Array(out)
            }

            fn search(&self, spec: &Value) -> Value {
                let table = FilterTable::parse(&spec["filter"]);
                let log: RefCell<Vec<Value>> = RefCell::new(vec![]);
                let count = std::cell::Cell::new(0usize);
                let script_obs: RefCell<Value> = RefCell::new(Value::Null);
                let method = spec["method"].as_str().unwrap_or("none");
                let mode = spec["mode"].as_str().unwrap();
                let target: Option<K> = if spec["target"].is_null() { None } else { Some(*self.nodes[us(&spec["target"])].key()) };
                let tcount: u64 = spec["transpose"].as_u64().unwrap_or(if spec["transpose"].as_bool().unwrap_or(false) { 1 } else { 0 });
                let transpose = tcount > 0;
                let repeat = spec.get("repeat").and_then(|r| r.as_bool()).unwrap_or(false);
                let split = std::cell::Cell::new(usize::MAX);
                let second: RefCell<Value> = RefCell::new(Value::Null);
                let res: Value;
                {
                    let script = spec.get("script").filter(|s| !s.is_null());
                    let lst = sel!($kind, { if transpose { "in" } else { "out" } }, { "adj" });
                    let before = |e: &Edge<K, N, E>| -> Option<bool> {
                        match script {
                            None => None,
                            Some(sc) => {
                                let ok = self.exists_now(lst, *e.0.key(), *e.1.key(), e.2);
                                if count.get() == us(&sc["at"]) {
                                    *script_obs.borrow_mut() = self.run_script(&sc["steps"]);
                                }
                                count.set(count.get() + 1);
                                Some(ok)
                            }
                        }
                    };
                    let mut filt = |e: &Edge<K, N, E>| -> bool {
                        let ok = before(e);
                        let r = table.lookup(*e.0.key(), *e.1.key(), e.2);
                        match ok {
                            Some(ok) => log.borrow_mut().push(json!([*e.0.key(), *e.1.key(), e.2, r, ok])),
                            None => log.borrow_mut().push(json!([*e.0.key(), *e.1.key(), e.2, r])),
                        }
                        r
                    };
                    let mut fe = |e: &Edge<K, N, E>| {
                        match before(e) {
                            Some(ok) => log.borrow_mut().push(json!([*e.0.key(), *e.1.key(), e.2, ok])),
                            None => log.borrow_mut().push(edge_json(e)),
                        }
                    };
                    // builder calls in the order the scenario asks for (default: priority, target, transpose, closure)
                    let order: Vec<String> = spec.get("order").and_then(|o| o.as_array())
                        .map(|a| a.iter().map(|x| x.as_str().unwrap().to_string()).collect())
                        .unwrap_or_else(|| ["prio", "target", "transpose", "method"].iter().map(|x| x.to_string()).collect());
                    macro_rules! finish {
                        ($s:ident, $prio:block) => {{
                            let mut filt_o = Some(&mut filt);
                            let mut fe_o = Some(&mut fe);
                            for step in order.iter() {
                                match step.as_str() {
                                    "prio" => $prio,
                                    "target" => { if let Some(t) = target.as_ref() { $s = $s.target(t); } }
                                    "transpose" => { sel!($kind, { for _ in 0..tcount { $s = $s.transpose(); } }, {}); }
                                    "method" => match method {
                                        "filter" => { if let Some(f) = filt_o.take() { $s = $s.filter(f); } }
                                        "foreach" => { if let Some(f) = fe_o.take() { $s = $s.for_each(f); } }
                                        _ => {}
                                    },
                                    x => panic!("builder step {}", x),
                                }
                            }
                            let keep = spec.get("keep").and_then(|k| k.as_str()).map(|k| k.to_string());
                            match mode {
                                "search" => {
                                    let r = $s.search();
                                    let v = match &r { Some(n) => json!(*n.key()), None => Value::Null };
                                    if let Some(k) = keep { self.kept.borrow_mut().push((k, Kept::Node(r))); }
                                    v
                                }
                                "path" if repeat => {
                                    let r = $s.search_path();
                                    let v = match &r { Some(p) => Value::Array(p.edges.iter().map(edge_json).collect()), None => Value::Null };
                                    split.set(log.borrow().len());
                                    let r2 = $s.search_path();
                                    second.replace(match &r2 { Some(p) => Value::Array(p.edges.iter().map(edge_json).collect()), None => Value::Null });
                                    v
                                }
                                "path" | "cycle" => {
                                    let r = if mode == "path" { $s.search_path() } else { $s.search_cycle() };
                                    let v = match &r { Some(p) => Value::Array(p.edges.iter().map(edge_json).collect()), None => Value::Null };
                                    if let Some(k) = keep { self.kept.borrow_mut().push((k, Kept::Path(r.map(|p| p.edges)))); }
                                    v
                                }
                                x => panic!("mode {}", x),
                            }
                        }};
                    }
                    res = self.with_handle(&spec["root"], |root| match spec["alg"].as_str().unwrap() {
                        "bfs" => { let mut s = root.bfs(); finish!(s, {}) }
                        "dfs" => { let mut s = root.dfs(); finish!(s, {}) }
                        "pfs" if repeat && mode == "search" => {
                            let mut s = root.pfs();
                            s = if spec["prio"].as_str() == Some("max") { s.max() } else { s.min() };
                            if let Some(t) = target.as_ref() { s = s.target(t); }
                            sel!($kind, { for _ in 0..tcount { s = s.transpose(); } }, {});
                            match method {
                                "filter" => { s = s.filter(&mut filt); }
                                "foreach" => { s = s.for_each(&mut fe); }
                                _ => {}
                            }
                            let v = match s.search() { Some(n) => json!(*n.key()), None => Value::Null };
                            split.set(log.borrow().len());
                            second.replace(match s.search() { Some(n) => json!(*n.key()), None => Value::Null });
                            v
                        }
                        "pfs" => {
                            let mut s = root.pfs();
                            finish!(s, { s = if spec["prio"].as_str() == Some("max") { s.max() } else { s.min() }; })
                        }
                        x => panic!("alg {}", x),
                    });
                }
                if repeat {
                    let mut calls = log.into_inner();
                    let calls2 = if split.get() <= calls.len() { calls.split_off(split.get()) } else { vec![] };
                    return json!({"result": res, "calls": calls, "result2": second.into_inner(), "calls2": calls2});
                }
                if spec.get("script").map(|s| !s.is_null()).unwrap_or(false) {
                    json!({"result": res, "calls": log.into_inner(), "script": script_obs.into_inner()})
                } else {
                    json!({"result": res, "calls": log.into_inner()})
                }
            }

            fn order(&self, spec: &Value) -> Value {
                let table = FilterTable::parse(&spec["filter"]);
                let log: RefCell<Vec<Value>> = RefCell::new(vec![]);
                let count = std::cell::Cell::new(0usize);
                let script_obs: RefCell<Value> = RefCell::new(Value::Null);
                let method = spec["method"].as_str().unwrap_or("none");
                let pre = spec["kind"].as_str().unwrap() == "pre";
                let tcount: u64 = spec["transpose"].as_u64().unwrap_or(if spec["transpose"].as_bool().unwrap_or(false) { 1 } else { 0 });
                let transpose = tcount > 0;
                let res: Value;
                {
                    let script = spec.get("script").filter(|s| !s.is_null());
                    let lst = sel!($kind, { if transpose { "in" } else { "out" } }, { "adj" });
                    let before = |e: &Edge<K, N, E>| -> Option<bool> {
                        match script {
                            None => None,
                            Some(sc) => {
                                let ok = self.exists_now(lst, *e.0.key(), *e.1.key(), e.2);
                                if count.get() == us(&sc["at"]) {
                                    *script_obs.borrow_mut() = self.run_script(&sc["steps"]);
                                }
                                count.set(count.get() + 1);
                                Some(ok)
                            }
                        }
                    };
                    let mut filt = |e: &Edge<K, N, E>| -> bool {
                        let ok = before(e);
                        let r = table.lookup(*e.0.key(), *e.1.key(), e.2);
                        match ok {
                            Some(ok) => log.borrow_mut().push(json!([*e.0.key(), *e.1.key(), e.2, r, ok])),
                            None => log.borrow_mut().push(json!([*e.0.key(), *e.1.key(), e.2, r])),
                        }
                        r
                    };
                    let mut fe = |e: &Edge<K, N, E>| {
                        match before(e) {
                            Some(ok) => log.borrow_mut().push(json!([*e.0.key(), *e.1.key(), e.2, ok])),
                            None => log.borrow_mut().push(edge_json(e)),
                        }
                    };
                    res = self.with_handle(&spec["root"], |root| {
                        // method_first: the closure is attached before transpose() / pre() / post() are called
                        let method_first = spec.get("method_first").and_then(|b| b.as_bool()).unwrap_or(false);
                        let mut s = sel!($kind, {
                            { let mut s = if pre { root.preorder() } else { root.postorder() };
                              if !method_first { for _ in 0..tcount { s = s.transpose(); } }
                              s }
                        }, {
                            { if method_first { root.order() } else if pre { root.order().pre() } else { root.order().post() } }
                        });
                        match method {
                            "filter" => { s = s.filter(&mut filt); }
                            "foreach" => { s = s.for_each(&mut fe); }
                            _ => {}
                        }
                        if method_first {
                            sel!($kind, { for _ in 0..tcount { s = s.transpose(); } }, { s = if pre { s.pre() } else { s.post() }; });
                        }
                        let keep = spec.get("keep").and_then(|k| k.as_str()).map(|k| k.to_string());
                        if spec["mode"].as_str().unwrap() == "nodes" {
                            let r = s.search_nodes();
                            let v = Value::Array(r.iter().map(|n| json!(*n.key())).collect());
                            if let Some(k) = keep { self.kept.borrow_mut().push((k, Kept::Nodes(r))); }
                            v
                        } else {
                            let r = s.search_edges();
                            let v = Value::Array(r.iter().map(edge_json).collect());
                            if let Some(k) = keep { self.kept.borrow_mut().push((k, Kept::Edges(r))); }
                            v
                        }
                    });
                }
                if spec.get("script").map(|s| !s.is_null()).unwrap_or(false) {
                    json!({"result": res, "calls": log.into_inner(), "script": script_obs.into_inner()})
                } else {
                    json!({"result": res, "calls": log.into_inner()})
                }
            }

            fn run_threads(&self, scripts: &Value, schedule: &Value) -> Value {
                sel2!($sync, { {
                    let scripts: Vec<Vec<Value>> = scripts.as_array().unwrap().iter().map(|s| s.as_array().unwrap().clone()).collect();
                    let n = scripts.len();
                    // schedule = {"stress": iterations}: every thread repeats its script, free running
                    let iters: usize = schedule.get("stress").and_then(|v| v.as_u64()).unwrap_or(1) as usize;
                    sched::reset(n);
                    let results: std::sync::Arc<std::sync::Mutex<Vec<Vec<Value>>>> = std::sync::Arc::new(std::sync::Mutex::new(vec![vec![]; n]));
                    let mut handles = vec![];
                    for (i, script) in scripts.into_iter().enumerate() {
                        let nodes: Vec<Node<K, N, E>> = self.nodes.iter().cloned().collect();
                        let results = results.clone();
                        handles.push(std::thread::Builder::new().stack_size(16 << 20).spawn(move || {
                            sched::TID.with(|t| t.set(i + 1));
                            sched::park();
                            'outer: for it in 0..iters {
                                for st in &script {
                                    let r = catch_unwind(AssertUnwindSafe(|| thread_step(&nodes, st)));
                                    let (v, stop) = match r { Ok(v) => (v, false), Err(e) => (json!({"panic": panic_msg(e)}), true) };
                                    if it == 0 || stop {
                                        results.lock().unwrap_or_else(|e| e.into_inner())[i].push(v);
                                    }
                                    if stop { break 'outer; }
                                }
                            }
                            std::mem::forget(nodes);
                            sched::finished();
                        }).unwrap());
                    }
                    sched::wait_all_parked(n, 2000);
                    if let Some(sch) = schedule.as_array() {
                        for ent in sch {
                            sched::step(us(&ent[0]), 120);
                        }
                    }
                    let all = sched::free_run_and_wait(n, if iters > 1 { 8000 } else { 1500 });
                    let rets = results.lock().unwrap_or_else(|e| e.into_inner()).clone();
                    let panicked = rets.iter().any(|r| r.last().map(|v| v.get("panic").is_some()).unwrap_or(false));
                    let outcome = if !all { "deadlock" } else if panicked { "panic" } else { "ok" };
                    if all { for h in handles { let _ = h.join(); } }
                    json!({"outcome": outcome, "returns": rets})
                } }, { {
                    json!({"error": "threads need a sync flavour"})
                } })
            }

            fn step_ro(&self, st: &Value) -> Option<Value> {
                let a = st.as_array().unwrap();
                Some(match a[0].as_str().unwrap() {
                    "threads" => {
                        let r = self.run_threads(&a[1], if a.len() > 2 { &a[2] } else { &Value::Null });
                        if r["outcome"] == json!("deadlock") {
                            // blocked threads cannot be joined: report and let the watchdog path end the process
                            return Some(json!({"outcome": "deadlock", "returns": r["returns"], "hang": true}));
                        }
                        r
                    }
                    "edge_eq" => {
                        let (u, i, v, j) = (us(&a[1]), us(&a[2]), us(&a[3]), us(&a[4]));
                        sel!($kind, {
                            json!(self.nodes[u].iter_out().nth(i).unwrap() == self.nodes[v].iter_out().nth(j).unwrap())
                        }, {
                            json!(self.nodes[u].iter().nth(i).unwrap() == self.nodes[v].iter().nth(j).unwrap())
                        })
                    }
                    "cmp_nodes" => {
                        // [ka, kb, va, vb]: comparison traits of two fresh nodes (replay of a Kani counterexample)
                        let x: Node<K, N, E> = Node::new(ky(&a[1]), Tracked { v: i6(&a[3]), id: 0 });
                        let y: Node<K, N, E> = Node::new(ky(&a[2]), Tracked { v: i6(&a[4]), id: 0 });
                        let ord = |o: std::cmp::Ordering| o as i8;
                        json!({"eq": x == y, "ne": x != y, "cmp": ord(x.cmp(&y)), "partial_cmp": x.partial_cmp(&y).map(ord),
                               "lt": x < y, "le": x <= y, "gt": x > y, "ge": x >= y})
                    }
                    "edge_reverse" => {
                        // [ka, kb, e]: Edge(a, b, e).reverse()
                        let x: Node<K, N, E> = Node::new(ky(&a[1]), Tracked { v: 0, id: 0 });
                        let y: Node<K, N, E> = Node::new(ky(&a[2]), Tracked { v: 0, id: 0 });
                        let e = Edge(x.clone(), y.clone(), i6(&a[3]));
                        let r = e.reverse();
                        json!({"reversed": [*r.source().key(), *r.target().key(), *r.value()], "original": [*e.source().key(), *e.target().key(), *e.value()]})
                    }
                    "degq" => {
                        let n = &self.nodes[us(&a[1])];
                        sel!($kind, { json!([n.out_degree(), n.in_degree()]) }, { json!([n.degree()]) })
                    }
                    "connect" => {
                        let e = i6(&a[3]);
                        self.with_handle(&a[1], |u| self.with_handle(&a[2], |v| u.connect(v, e)));
                        json!("ok")
                    }
                    "try_connect" => {
                        let e = i6(&a[3]);
                        match self.with_handle(&a[1], |u| self.with_handle(&a[2], |v| u.try_connect(v, e))) {
                            Ok(()) => json!("ok"),
                            Err(err) => json!(format!("err:{:?}", err)),
                        }
                    }
                    "disconnect" => {
                        let k = ky(&a[2]);
                        match self.with_handle(&a[1], |u| u.disconnect(&k)) {
                            Ok(x) => json!(["ok", x]),
                            Err(err) => json!(format!("err:{:?}", err)),
                        }
                    }
                    "isolate" => {
                        self.with_handle(&a[1], |u| u.isolate());
                        json!("ok")
                    }
                    "dump" => {
                        if a.len() > 1 {
                            self.dump_lite()
                        } else {
                            self.dump()
                        }
                    }
                    "query" => self.dump_nodes(&[&self.nodes[us(&a[1])]])[0].clone(),
                    "clone_drop" => {
                        let c = self.nodes[us(&a[1])].clone();
                        drop(c);
                        json!("ok")
                    }
                    "search" => self.search(&a[1]),
                    "order" => self.order(&a[1]),
                    "loop" => self.user_loop(&a[1]),
                    _ => return None,
                })
            }

            fn step(&mut self, st: &Value) -> Value {
                if let Some(v) = self.step_ro(st) {
                    return v;
                }
                let a = st.as_array().unwrap();
                let op = a[0].as_str().unwrap();
                if op == "drop" {
                    let i = us(&a[1]);
                    let dummy = Node::new(K::from(usize::MAX - i), Tracked { v: 0, id: 0 });
                    let old = std::mem::replace(&mut self.nodes[i], dummy);
                    drop(old);
                    return json!("ok");
                }
                if op == "drop_graph" {
                    self.graph = None;
                    return json!("ok");
                }
                if op == "drop_kept" {
                    let name = a[1].as_str().unwrap();
                    self.kept.borrow_mut().retain(|(k, _)| k != name);
                    return json!("ok");
                }
                if op == "drops" {
                    return json!(self.ids.iter().map(|id| Tracked::drops_of(*id)).collect::<Vec<_>>());
                }
                if op == "use_kept" {
                    let name = a[1].as_str().unwrap();
                    let kept = self.kept.borrow();
                    let mut out = vec![];
                    let deg = |n: &Node<K, N, E>| -> usize { sel!($kind, { n.out_degree() + n.in_degree() }, { n.degree() }) };
                    for (k, v) in kept.iter() {
                        if k != name { continue; }
                        let mut push = |n: &Node<K, N, E>| out.push(json!([*n.key(), n.value().v, deg(n)]));
                        match v {
                            Kept::Node(Some(n)) => push(n),
                            Kept::Node(None) => {}
                            Kept::Path(Some(es)) => for e in es { push(&e.0); push(&e.1); },
                            Kept::Path(None) => {}
                            Kept::Nodes(ns) => for n in ns { push(n); },
                            Kept::Edges(es) => for e in es { push(&e.0); push(&e.1); },
                        }
                    }
                    return Value::Array(out);
                }
                if op == "g_new" {
                    self.graph = Some(match a.get(1).and_then(|x| x.as_str()) {
                        Some("default") => Graph::default(),
                        Some("with_capacity") => sel!($kind, { sel2!($sync, { Graph::new() }, { Graph::with_capacity(4) }) }, { Graph::new() }),
                        _ => Graph::new(),
                    });
                    return json!("ok");
                }
                if op == "g_insert" {
                    let n = self.nodes[us(&a[1])].clone();
                    return json!(self.graph.as_mut().unwrap().insert(n));
                }
                if op == "g_deserialize" {
                    return Self::deserialize_doc(&a[1]);
                }
                if op == "g_remove" {
                    let r = self.graph.as_mut().unwrap().remove(&ky(&a[1]));
                    // with a slot number the caller keeps the node that remove() hands out (as its handle of that number)
                    if let (Some(n), Some(slot)) = (r.as_ref(), a.get(2).and_then(|x| x.as_u64())) {
                        self.nodes[slot as usize] = n.clone();
                        drop(r);
                        let n = self.nodes[slot as usize].clone();
                        return self.node_obs(&n);
                    }
                    return match r { Some(n) => self.node_obs(&n), None => Value::Null };
                }
                let g = self.graph.as_ref().unwrap();
                match op {
                    "g_get" => match g.get(&ky(&a[1])) { Some(n) => self.node_obs(&n), None => Value::Null },
                    "g_index" => {
                        let by_ref = a.get(2).and_then(|x| x.as_bool()).unwrap_or(false);
                        let k = ky(&a[1]);
                        let n = sel!($kind, { if by_ref { &g[&k] } else { &g[k] } }, { &g[k] });
                        self.node_obs(n)
                    }
                    "g_contains" => json!(g.contains(&ky(&a[1]))),
                    "g_len" => json!(g.len()),
                    "g_is_empty" => json!(g.is_empty()),
                    "g_to_vec" => json!(g.to_vec().iter().map(|n| self.alias_of(n)).collect::<Vec<_>>()),
                    "g_orphans" => json!(g.orphans().iter().map(|n| self.alias_of(n)).collect::<Vec<_>>()),
                    "g_iter" => json!(g.iter().map(|(k, n)| json!([*k, self.alias_of(n)])).collect::<Vec<_>>()),
                    "g_to_dot" => json!(g.to_dot()),
                    "g_roundtrip" => {
                        let text = serde_json::to_string(g).unwrap();
                        let docv: Value = serde_json::from_str(&text).unwrap();
                        let doc = json!({"nodes": docv[0], "edges": docv[1]});
                        let g2: Result<Graph<K, N, E>, _> = serde_json::from_str(&text);
                        let bytes = serde_cbor::to_vec(g).unwrap();
                        let g3: Result<Graph<K, N, E>, _> = serde_cbor::from_slice(&bytes);
                        let mut keys: Vec<K> = vec![];
                        for n in &self.nodes { if !keys.contains(n.key()) { keys.push(*n.key()); } }
                        let view = |gg: &Graph<K, N, E>| -> Value {
                            let ms: Vec<Node<K, N, E>> = keys.iter().filter_map(|k| gg.get(k)).collect();
                            let extra: Vec<K> = gg.iter().map(|(k, _)| *k).filter(|k| !keys.contains(k)).collect();
                            json!({"dump": Self::dump_lite_of(&ms.iter().collect::<Vec<_>>()), "len": gg.len(), "extra": extra})
                        };
                        match (g2, g3) {
                            (Ok(a), Ok(b)) => {
                                let (va, vb) = (view(&a), view(&b));
                                json!({"doc": doc, "graph2": va["dump"], "len2": va["len"], "cbor_same": va == vb})
                            }
                            (Err(e), _) => json!({"doc": doc, "graph2": format!("err:{}", e)}),
                            (_, Err(e)) => json!({"doc": doc, "graph2": format!("err:cbor:{}", e)}),
                        }
                    }
                    _ => self.step_graph_flavour(op, a),
                }
            }
        }

        pub fn run(scen: &Value, tx: &mpsc::Sender<Value>) {
            let mut w = World { nodes: vec![], ids: vec![], graph: None, kept: RefCell::new(vec![]) };
            for kv in scen["nodes"].as_array().unwrap() {
                let t = Tracked::new(i6(&kv[1]));
                w.ids.push(t.id);
                w.nodes.push(Node::new(ky(&kv[0]), t));
            }
            for st in scen["steps"].as_array().unwrap() {
                let r = catch_unwind(AssertUnwindSafe(|| w.step(st)));
                match r {
                    Ok(v) => {
                        let _ = tx.send(v);
                    }
                    Err(e) => {
                        let _ = tx.send(json!({"panic": panic_msg(e)}));
                        std::mem::forget(w);
                        return;
                    }
                }
            }
        }
    };
}
