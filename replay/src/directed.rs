macro_rules! directed_impl {
    () => {
        pub struct World {
            pub nodes: Vec<Node<K, N, E>>,
            pub graph: Option<Graph<K, N, E>>,
        }

        impl World {
            fn handle(&self, h: &Value) -> Node<K, N, E> {
                if h.is_u64() {
                    // the original handle itself is used by reference at the call sites below;
                    // here a clone stands for it only for expression results
                    return self.nodes[us(h)].clone();
                }
                let a = h.as_array().unwrap();
                match a[0].as_str().unwrap() {
                    "clone" => self.handle(&a[1]).clone(),
                    "out" => {
                        let base = self.handle(&a[1]);
                        let e = base.iter_out().nth(us(&a[2])).unwrap();
                        e.1.clone()
                    }
                    "in" => {
                        let base = self.handle(&a[1]);
                        let e = base.iter_in().nth(us(&a[2])).unwrap();
                        e.0.clone()
                    }
                    "find_out" => self.handle(&a[1]).find_outbound(&us(&a[2])).unwrap(),
                    "find_in" => self.handle(&a[1]).find_inbound(&us(&a[2])).unwrap(),
                    "graph" => self.graph.as_ref().unwrap().get(&us(&a[1])).unwrap(),
                    x => panic!("handle kind {}", x),
                }
            }

            fn with_handle<R>(&self, h: &Value, f: impl FnOnce(&Node<K, N, E>) -> R) -> R {
                if h.is_u64() {
                    f(&self.nodes[us(h)])
                } else {
                    let n = self.handle(h);
                    f(&n)
                }
            }

            fn dump(&self) -> Value {
                let keys: Vec<K> = self.nodes.iter().map(|n| *n.key()).collect();
                let mut out = vec![];
                for n in &self.nodes {
                    let mut self_ok = true;
                    let o: Vec<Value> = n
                        .iter_out()
                        .map(|Edge(u, v, e)| {
                            if u.key() != n.key() {
                                self_ok = false;
                            }
                            json!([*v.key(), e])
                        })
                        .collect();
                    let i: Vec<Value> = n
                        .iter_in()
                        .map(|Edge(u, v, e)| {
                            if v.key() != n.key() {
                                self_ok = false;
                            }
                            json!([*u.key(), e])
                        })
                        .collect();
                    let ic: Vec<bool> = keys.iter().map(|k| n.is_connected(k)).collect();
                    let fo: Vec<Option<K>> = keys.iter().map(|k| n.find_outbound(k).map(|x| *x.key())).collect();
                    let fi: Vec<Option<K>> = keys.iter().map(|k| n.find_inbound(k).map(|x| *x.key())).collect();
                    out.push(json!({
                        "out": o, "in": i, "self_ok": self_ok,
                        "out_degree": n.out_degree(), "in_degree": n.in_degree(),
                        "is_root": n.is_root(), "is_leaf": n.is_leaf(), "is_orphan": n.is_orphan(),
                        "is_connected": ic, "find_out": fo, "find_in": fi,
                        "key": *n.key(), "value": *n.value(),
                    }));
                }
                Value::Array(out)
            }

            fn step(&mut self, st: &Value) -> Value {
                let a = st.as_array().unwrap();
                match a[0].as_str().unwrap() {
                    "connect" => {
                        let e = i6(&a[3]);
                        self.with_handle(&a[1], |u| self.with_handle(&a[2], |v| u.connect(v, e)));
                        json!("ok")
                    }
                    "try_connect" => {
                        let e = i6(&a[3]);
                        match self.with_handle(&a[1], |u| self.with_handle(&a[2], |v| u.try_connect(v, e))) {
                            Ok(()) => json!("ok"),
                            Err(err) => json!(format!("err:{:?}", err)),
                        }
                    }
                    "disconnect" => {
                        let k = us(&a[2]);
                        match self.with_handle(&a[1], |u| u.disconnect(&k)) {
                            Ok(x) => json!(["ok", x]),
                            Err(err) => json!(format!("err:{:?}", err)),
                        }
                    }
                    "isolate" => {
                        self.with_handle(&a[1], |u| u.isolate());
                        json!("ok")
                    }
                    "dump" => self.dump(),
                    x => json!({"error": format!("unknown step {}", x)}),
                }
            }
        }

        pub fn run(scen: &Value, tx: &mpsc::Sender<Value>) {
            let mut w = World { nodes: vec![], graph: None };
            for kv in scen["nodes"].as_array().unwrap() {
                w.nodes.push(Node::new(us(&kv[0]), i6(&kv[1])));
            }
            for st in scen["steps"].as_array().unwrap() {
                let r = catch_unwind(AssertUnwindSafe(|| w.step(st)));
                match r {
                    Ok(v) => {
                        let _ = tx.send(v);
                    }
                    Err(e) => {
                        let _ = tx.send(json!({"panic": panic_msg(e)}));
                        std::mem::forget(w);
                        return;
                    }
                }
            }
        }
    };
}
