//! Engine B: Kani harnesses over the compiled gdsl code for the heap-free obligations
//! (node / edge comparison traits of C06, Edge::reverse of C08).  Every handle is forgotten at the
//! end (dropping Rc/Arc graphs is what CBMC cannot afford - measured in DESIGN.md §0).
#![allow(unused)]

#[cfg(kani)]
mod harnesses {
    use std::cmp::Ordering;

    // sync_digraph::Edge implements no ordering on this tree; the others order edges by value
    macro_rules! edge_order {
        (yes, $x:ident, $y:ident, $e1:ident, $e2:ident) => {
            assert_eq!($x.cmp(&$y), $e1.cmp(&$e2));
            assert_eq!($x.partial_cmp(&$y), Some($e1.cmp(&$e2)));
        };
        (no, $x:ident, $y:ident, $e1:ident, $e2:ident) => {};
    }

    macro_rules! flavour_harnesses {
        ($modname:ident, $fl:ident, $ordered:tt) => {
            mod $modname {
                use super::*;
                use gdsl::$fl::{Edge, Node};

                #[kani::proof]
                #[kani::unwind(2)]
                fn node_comparisons() {
                    let ka: u8 = kani::any();
                    let kb: u8 = kani::any();
                    let va: i8 = kani::any();
                    let vb: i8 = kani::any();
                    let a: Node<u8, i8, ()> = Node::new(ka, va);
                    let b: Node<u8, i8, ()> = Node::new(kb, vb);
                    // node equality is equality of keys
                    assert_eq!(a == b, ka == kb);
                    assert_eq!(a != b, ka != kb);
                    // Ord and PartialOrd order by value, identically
                    assert_eq!(a.cmp(&b), va.cmp(&vb));
                    assert_eq!(a.partial_cmp(&b), Some(va.cmp(&vb)));
                    assert_eq!(a < b, va < vb);
                    assert_eq!(a <= b, va <= vb);
                    assert_eq!(a > b, va > vb);
                    assert_eq!(a >= b, va >= vb);
                    kani::cover!(ka == kb && va != vb, "same key, different value");
                    kani::cover!(ka != kb && va == vb, "different key, tie");
                    std::mem::forget(a);
                    std::mem::forget(b);
                }

                #[kani::proof]
                #[kani::unwind(2)]
                fn edge_reverse_and_order() {
                    let ka: u8 = kani::any();
                    let kb: u8 = kani::any();
                    let e1: i8 = kani::any();
                    let e2: i8 = kani::any();
                    let a: Node<u8, (), i8> = Node::new(ka, ());
                    let b: Node<u8, (), i8> = Node::new(kb, ());
                    let x = Edge(a.clone(), b.clone(), e1);
                    let y = Edge(b.clone(), a.clone(), e2);
                    let r = x.reverse();
                    // reverse swaps the endpoints and keeps the value
                    assert!(*r.source().key() == kb && *r.target().key() == ka && *r.value() == e1);
                    assert!(*x.source().key() == ka && *x.target().key() == kb && *x.value() == e1);
                    edge_order!($ordered, x, y, e1, e2);
                    std::mem::forget(r);
                    std::mem::forget(x);
                    std::mem::forget(y);
                    std::mem::forget(a);
                    std::mem::forget(b);
                }
            }
        };
    }

    flavour_harnesses!(digraph, digraph, yes);
    flavour_harnesses!(sync_digraph, sync_digraph, no);
    flavour_harnesses!(ungraph, ungraph, yes);
    flavour_harnesses!(sync_ungraph, sync_ungraph, yes);
}
