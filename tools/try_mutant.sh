#!/bin/bash
# usage: try_mutant.sh <worktree dir with patch.diff + tests/seeded_demo.rs> <name> <property ids to run...>
# 1. confirms in the scratch worktree: existing suite passes with the change, demo fails with it and passes without
# 2. applies the patch to /repo, runs the named checks (quick), undoes it
set -u
WT=$1; NAME=$2; shift 2
export CARGO_NET_OFFLINE=true CARGO_TARGET_DIR=$WT/target
cd $WT || exit 9
OUT=/verif/.work/mutants/$NAME; mkdir -p $OUT
git checkout -q -- src 2>/dev/null; git apply patch.diff || { echo "PATCH DOES NOT APPLY"; exit 9; }
mv tests/seeded_demo.rs /tmp/seeded_demo_$NAME.rs
cargo test --offline --no-fail-fast > $OUT/suite_with.log 2>&1; S1=$?
mv /tmp/seeded_demo_$NAME.rs tests/seeded_demo.rs
cargo test --offline --test seeded_demo > $OUT/demo_with.log 2>&1; D1=$?
git apply -R patch.diff
cargo test --offline --test seeded_demo > $OUT/demo_without.log 2>&1; D0=$?
git apply patch.diff
echo "suite_with_change_exit=$S1 demo_with_change_exit=$D1 demo_without_change_exit=$D0"
if [ $S1 -ne 0 ] || [ $D1 -eq 0 ] || [ $D0 -ne 0 ]; then echo "MUTANT NOT VALID"; fi
cd /verif
export VERIF_EVIDENCE_DIR=/verif/.work/mutant-evidence
# MUT_SCRATCH=1: run the checks against the scratch worktree itself (GDSL_REPO) instead of patching /repo - needed while a
# long background run is reading /repo
if [ -n "${MUT_SCRATCH:-}" ]; then
  git -C /repo apply --check $WT/patch.diff || { echo "patch does not apply to /repo"; exit 9; }
  export GDSL_REPO=$WT VERIF_WORK=$WT/.verif-work
else
  git -C /repo apply $WT/patch.diff || { echo "patch does not apply to /repo"; exit 9; }
fi
for p in "$@"; do
  bin/check $p --tier quick > $OUT/check_$p.log 2>&1; echo "check $p exit=$? : $(grep -c '^VIOLATION' $OUT/check_$p.log) violation lines; $(tail -1 $OUT/check_$p.log | cut -c1-200)"
  grep 'counterexample' $OUT/check_$p.log | head -3 | cut -c1-260
done
[ -n "${MUT_SCRATCH:-}" ] || git -C /repo checkout -- .
git -C /repo status --short
