#!/bin/bash
# Re-runs every seeded change under /verif/seeded against the check of the property it breaks (quick tier) and
# prints one line per change.  Applies each patch to /repo and undoes it straight afterwards; /repo must be clean.
# usage: tools/run_seeded.sh [name-prefix]
cd /verif
export VERIF_EVIDENCE_DIR=/verif/.work/mutant-evidence
if [ -n "$(git -C /repo status --porcelain)" ]; then echo "/repo is not clean"; exit 9; fi
mkdir -p .work/seeded-runs
for d in seeded/${1:-}*/; do
  n=$(basename $d)
  prop=$(python3 -c "import json;print(json.load(open('$d/meta.json'))['breaks_property'])")
  if grep -q '"applies_to_current_tree": false' $d/meta.json; then echo "$n: skipped (patch is against an older tree)"; continue; fi
  git -C /repo apply /verif/$d/patch.diff || { echo "$n: patch does not apply"; continue; }
  bin/check $prop --tier quick > .work/seeded-runs/$n.log 2>&1; rc=$?
  git -C /repo checkout -- .
  echo "$n: check $prop exit=$rc violations=$(grep -c '^VIOLATION' .work/seeded-runs/$n.log) :: $(grep -m1 counterexample .work/seeded-runs/$n.log | cut -c1-160)"
done
