#!/usr/bin/env python3
"""automut.py: a mechanical mutation campaign against the checks (complements the hand-seeded changes of seeded/).

For each sampled single-token mutation of gdsl's sources (applied to a SCRATCH copy of /repo, never to /repo itself):
  1. `cargo check` - mutants that do not compile are discarded;
  2. the crate's own test suite (`cargo test --offline`, all targets and doc tests) - mutants the suite kills are
     counted and dropped: they are not what this framework is for;
  3. the quick tier of the checks that own the mutated file, run with GDSL_REPO pointing at the scratch copy
     (own work and evidence directories, so /verif/.work and /verif/evidence are untouched), stopping at the first
     check that reports a VIOLATION.
A mutant that survives the suite and every mapped check is either equivalent (no observable change) or a miss; the
survivors are listed for triage by hand.

usage: automut.py [--n N] [--seed S] [--slots K] [--jobs J] [--only REGEX] [--out DIR]
Scratch lives under /tmp/automut and is removed at the end (worktrees via `git worktree remove`).
"""
import argparse
import json
import os
import random
import re
import shutil
import subprocess
import sys
import time
from concurrent.futures import ThreadPoolExecutor

VERIF = os.path.dirname(os.path.dirname(os.path.abspath(__file__)))
REPO = '/repo'
SCRATCH = '/tmp/automut'

# ------------------------------------------------------------------ mutation operators (one site = one line, one match)
OPS = [
    ('dir-swap', r'\boutbound\b', 'inbound'), ('dir-swap', r'\binbound\b', 'outbound'),
    ('dir-swap', r'outbound(?=_|\()', 'inbound'), ('dir-swap', r'inbound(?=_|\()', 'outbound'),
    ('end-swap', r'\bsource\(\)', 'target()'), ('end-swap', r'\btarget\(\)', 'source()'),
    ('end-swap', r'\.0\b(?=[.,) ])', '.1'), ('end-swap', r'\.1\b(?=[.,) ])', '.0'),
    ('eq', r' == ', ' != '), ('eq', r' != ', ' == '),
    ('logic', r' && ', ' || '), ('logic', r' \|\| ', ' && '),
    ('bool', r'\btrue\b', 'false'), ('bool', r'\bfalse\b', 'true'),
    ('not', r'(?<=if )!', ''), ('not', r'(?<=if )(?=[a-z_.]+\()', '!'),
    ('deque', r'push_back', 'push_front'), ('deque', r'pop_front', 'pop_back'), ('deque', r'pop_back', 'pop_front'),
    ('rev', r'\.rev\(\)', ''), ('skip', r'\.skip\(1\)', ''), ('skip', r'\.skip\(1\)', '.skip(2)'),
    ('opt', r'is_some\(\)', 'is_none()'), ('opt', r'is_none\(\)', 'is_some()'),
    ('lit', r'(?<![\w.])0(?![\w.])', '1'), ('lit', r'(?<![\w.])1(?![\w.])', '0'), ('lit', r'(?<![\w.])1(?![\w.])', '2'),
    ('arith', r' \+ 1\b', ' - 1'), ('arith', r' - 1\b', ' + 1'), ('arith', r' \+ ', ' - '),
    ('cmp', r' < ', ' <= '), ('cmp', r' <= ', ' < '), ('cmp', r' > ', ' >= '), ('cmp', r' >= ', ' > '), ('cmp', r' < ', ' > '),
    ('flow', r'\bcontinue\b', 'break'), ('flow', r'\bbreak\b', 'continue'),
    ('weak', r'Some\(', 'None.or(Some('),          # placeholder, filtered out below (kept for numbering stability)
    ('first-last', r'\.first\(\)', '.last()'), ('first-last', r'\.last\(\)', '.first()'),
    ('minmax', r'\bloop_outbound_min\b', 'loop_inbound_min'), ('minmax', r'\bloop_inbound_max\b', 'loop_outbound_max'),
    ('delete', None, None),                        # whole-line deletion of a call statement
]
DELETE_RE = re.compile(r'^\s+[A-Za-z_][\w.]*(\(\))?(\.[\w]+)*\([^;{}]*\);\s*$')
SKIP_LINE = re.compile(r'^\s*(//|#\[|use |pub use |mod |pub mod |\*|/\*)')


def sites():
    out = []
    for root, dirs, files in sorted(os.walk(os.path.join(REPO, 'src'))):
        dirs.sort()
        for fn in sorted(files):
            p = os.path.join(root, fn)
            rel = os.path.relpath(p, REPO)
            if not fn.endswith('.rs') or fn in ('verif_hook.rs', 'lib.rs') or fn == 'graph_macros.rs' and False:
                continue
            lines = open(p).read().split('\n')
            in_macro_doc = False
            for i, ln in enumerate(lines):
                if SKIP_LINE.match(ln) or 'verif_hook' in ln or 'gdsl_verif' in ln or not ln.strip():
                    continue
                for oi, (name, pat, rep) in enumerate(OPS):
                    if name == 'weak':
                        continue
                    if name == 'delete':
                        if DELETE_RE.match(ln) and not ln.strip().startswith(('let ', 'return', 'assert', 'panic', 'write!', 'writeln!')):
                            out.append({'file': rel, 'line': i + 1, 'op': name, 'k': 0, 'old': ln, 'new': None})
                        continue
                    for k, m in enumerate(re.finditer(pat, ln)):
                        new = ln[:m.start()] + rep + ln[m.end():]
                        if new != ln:
                            out.append({'file': rel, 'line': i + 1, 'op': name, 'k': k, 'old': ln, 'new': new})
    return out


def checks_for(rel):
    parts = rel.split('/')
    fl = parts[1]
    directed = 'digraph' in fl
    sync = fl.startswith('sync')
    fn = parts[-1]
    if parts[-2] == 'node' and fn in ('mod.rs', 'adjacent.rs'):
        cs = (['C01'] if directed else ['C02']) + ['C03', 'C19', 'C04', 'C20']
        if sync:
            cs += ['C15', 'C17']
    elif fn == 'bfs.rs':
        cs = ['C04', 'C09', 'C07'] + (['C08'] if directed else []) + ['C20']
    elif fn == 'dfs.rs':
        cs = ['C05', 'C09', 'C07'] + (['C08'] if directed else []) + ['C20']
    elif fn == 'pfs.rs':
        cs = ['C06', 'C09', 'C07'] + (['C08'] if directed else []) + ['C20']
    elif fn == 'order.rs':
        cs = ['C10'] + (['C11', 'C08'] if directed else []) + ['C20']
    elif fn == 'path.rs':
        cs = ['C09', 'C04', 'C05', 'C06', 'C19']
    elif fn == 'method.rs':
        cs = ['C09', 'C07']
    elif fn == 'graph_serde.rs':
        cs = ['C12', 'C13']
    elif fn == 'graph_macros.rs':
        cs = ['C14']
    elif fn == 'mod.rs' and len(parts) == 3:
        cs = ['C18'] + (['C11'] if directed else []) + ['C12']
    else:
        cs = ['C03']
    if sync and 'C15' not in cs:
        cs.append('C15')
    return cs


def sh(cmd, cwd=None, env=None, timeout=None):
    try:
        r = subprocess.run(cmd, cwd=cwd, env=env, stdout=subprocess.PIPE, stderr=subprocess.STDOUT, text=True, timeout=timeout)
        return r.returncode, r.stdout
    except subprocess.TimeoutExpired as e:
        return 124, (e.stdout or b'').decode() if isinstance(e.stdout, bytes) else (e.stdout or '')


def apply(wt, s):
    p = os.path.join(wt, s['file'])
    lines = open(p).read().split('\n')
    assert lines[s['line'] - 1] == s['old'], (s, lines[s['line'] - 1])
    if s['new'] is None:
        del lines[s['line'] - 1]
    else:
        lines[s['line'] - 1] = s['new']
    open(p, 'w').write('\n'.join(lines))


def one(slot, s, jobs, outdir):
    wt = f'{SCRATCH}/wt{slot}'
    env = dict(os.environ, CARGO_NET_OFFLINE='true', CARGO_TARGET_DIR=f'{SCRATCH}/target{slot}')
    sh(['git', 'checkout', '-q', '--', '.'], cwd=wt)
    apply(wt, s)
    res = dict(s)
    t = time.time()
    rc, out = sh(['cargo', 'check', '--offline', '--lib', '--quiet'], cwd=wt, env=env, timeout=600)
    if rc != 0:
        res['fate'] = 'does-not-compile'
        return res
    rc, out = sh(['cargo', 'test', '--offline', '--quiet', '--tests'], cwd=wt, env=env, timeout=1200)
    if rc != 0:
        res['fate'] = 'killed-by-suite'
        res['suite_s'] = round(time.time() - t, 1)
        return res
    rc, out = sh(['cargo', 'test', '--offline', '--quiet', '--doc'], cwd=wt, env=env, timeout=1800)
    res['suite_s'] = round(time.time() - t, 1)
    if rc != 0:
        res['fate'] = 'killed-by-suite'
        return res
    diff = sh(['git', 'diff', '--', 'src'], cwd=wt)[1]
    cenv = dict(os.environ, CARGO_NET_OFFLINE='true', GDSL_REPO=wt, VERIF_WORK=f'{SCRATCH}/work{slot}',
                VERIF_EVIDENCE_DIR=f'{SCRATCH}/ev{slot}', VERIF_JOBS=str(jobs))
    res['checks'] = {}
    res['fate'] = 'survived-checks'
    for c in checks_for(s['file']):
        t = time.time()
        rc, out = sh([os.path.join(VERIF, 'bin', 'check'), c, '--tier', 'quick'], cwd=VERIF, env=cenv, timeout=3600)
        cex = [l.strip()[:240] for l in out.split('\n') if 'counterexample' in l][:1]
        res['checks'][c] = {'exit': rc, 's': round(time.time() - t, 1), 'first': cex}
        if rc == 1 and 'VIOLATION' in out:
            res['fate'] = 'caught'
            res['caught_by'] = c
            break
        if rc not in (0, 1):
            res['fate'] = 'inconclusive'
            res['tail'] = out[-600:]
    if res['fate'] != 'caught':
        open(os.path.join(outdir, f'survivor-{s["file"].replace("/", "_")}-{s["line"]}-{s["op"]}{s["k"]}.diff'), 'w').write(diff)
    return res


def main():
    ap = argparse.ArgumentParser()
    ap.add_argument('--n', type=int, default=60)
    ap.add_argument('--seed', type=int, default=1)
    ap.add_argument('--slots', type=int, default=3)
    ap.add_argument('--jobs', type=int, default=4)
    ap.add_argument('--only', default=None)
    ap.add_argument('--recheck', default=None, help='results file: run again only the mutants that were not caught (checks may have changed, or were being edited, since)')
    ap.add_argument('--out', default=os.path.join(VERIF, 'seeded', 'automut'))
    a = ap.parse_args()
    if subprocess.run(['git', '-C', REPO, 'status', '--porcelain'], stdout=subprocess.PIPE, text=True).stdout.strip():
        sys.exit('/repo is not clean')
    os.makedirs(a.out, exist_ok=True)
    allsites = sites()
    if a.only:
        allsites = [s for s in allsites if re.search(a.only, s['file'])]
    rnd = random.Random(a.seed)
    # stratify: sample round-robin over (file kind, operator class) so that no big file dominates
    groups = {}
    for s in allsites:
        groups.setdefault((s['file'].split('/')[-1] + ('/n' if '/node/' in s['file'] else ''), s['op']), []).append(s)
    keys = sorted(groups)
    rnd.shuffle(keys)
    for k in keys:
        rnd.shuffle(groups[k])
    chosen = []
    while len(chosen) < a.n and any(groups.values()):
        for k in keys:
            if groups[k] and len(chosen) < a.n:
                chosen.append(groups[k].pop())
    if a.recheck:
        prev = json.load(open(a.recheck))['results']
        keys = {(r['file'], r['line'], r['op'], r['k']) for r in prev if r['fate'] in ('survived-checks', 'inconclusive', 'tool-error')}
        chosen = [s for s in allsites if (s['file'], s['line'], s['op'], s['k']) in keys]
    print(f'{len(allsites)} mutation sites, {len(chosen)} sampled (seed {a.seed})', flush=True)
    os.makedirs(SCRATCH, exist_ok=True)
    for i in range(a.slots):
        subprocess.run(['git', '-C', REPO, 'worktree', 'add', '-q', '--detach', f'{SCRATCH}/wt{i}', 'HEAD'], check=True)
    results = []
    resfile = os.path.join(a.out, f'results-seed{a.seed}' + ('-recheck' if a.recheck else '') + '.json')
    try:
        import queue
        q = queue.Queue()
        for s in chosen:
            q.put(s)

        def worker(slot):
            while True:
                try:
                    s = q.get_nowait()
                except queue.Empty:
                    return
                try:
                    r = one(slot, s, a.jobs, a.out)
                except Exception as e:        # noqa
                    r = dict(s, fate='tool-error', error=repr(e))
                results.append(r)
                print(f'[{len(results)}/{len(chosen)}] {r["fate"]:18s} {r["file"]}:{r["line"]} {r["op"]} '
                      f'{r.get("caught_by", "")} {({c: v["exit"] for c, v in r.get("checks", {}).items()})}', flush=True)
                json.dump({'seed': a.seed, 'sites_total': len(allsites), 'results': results}, open(resfile, 'w'), indent=1)
        with ThreadPoolExecutor(a.slots) as ex:
            list(ex.map(worker, range(a.slots)))
    finally:
        for i in range(a.slots):
            subprocess.run(['git', '-C', REPO, 'worktree', 'remove', '--force', f'{SCRATCH}/wt{i}'])
        subprocess.run(['git', '-C', REPO, 'worktree', 'prune'])
        shutil.rmtree(SCRATCH, ignore_errors=True)
    tally = {}
    for r in results:
        tally[r['fate']] = tally.get(r['fate'], 0) + 1
    print('TALLY', tally)


if __name__ == '__main__':
    main()
