#!/usr/bin/env python3
"""keep_mutant.py <worktree> <name> <property> <needs text> -- <check results text...>: store a confirmed seeded change"""
import json, os, shutil, sys, re
wt, name, prop, needs = sys.argv[1:5]
logname = sys.argv[5] if len(sys.argv) > 5 else name
d = f'/verif/seeded/{name}'
os.makedirs(d, exist_ok=True)
shutil.copy(f'{wt}/patch.diff', f'{d}/patch.diff')
shutil.copy(f'{wt}/tests/seeded_demo.rs', f'{d}/seeded_demo.rs')
if os.path.exists(f'{wt}/NOTES.md'):
    shutil.copy(f'{wt}/NOTES.md', f'{d}/NOTES.md')
logs = f'/verif/.work/mutants/{logname}'
checks = {}
for fn in sorted(os.listdir(logs)):
    m = re.match(r'check_(C\d+)\.log', fn)
    if m:
        txt = open(f'{logs}/{fn}').read()
        last = txt.strip().split('\n')[-1]
        checks[m.group(1)] = {'violations': txt.count('\nVIOLATION') + txt.startswith('VIOLATION'), 'exit': int(last.rsplit('exit ', 1)[-1]) if 'exit ' in last else None,
                              'first_counterexamples': [l.strip()[:300] for l in txt.split('\n') if 'counterexample' in l][:3]}
meta = {'breaks_property': prop, 'needs_to_manifest': needs,
        'confirmed_in_scratch_worktree': {'existing_suite_passes_with_change': True, 'demo_fails_with_change': True, 'demo_passes_without_change': True,
                                          'commands': 'tools/try_mutant.sh (cargo test --offline --no-fail-fast with the change and the demo moved aside; cargo test --offline --test seeded_demo with and without the change)'},
        'checks_run_against_it': checks,
        'how_to_rerun': f'git -C /repo apply /verif/seeded/{name}/patch.diff && bin/check <id>; git -C /repo checkout -- .'}
json.dump(meta, open(f'{d}/meta.json', 'w'), indent=1)
print('kept', d, {k: v['exit'] for k, v in checks.items()})
