#!/usr/bin/env python3
"""Writes MANIFEST.json from the table below (kept as code so it stays consistent)."""
import json

CLAIMED = {
    'C01': ('model_checking', '§6 C01', 'Every (pre-state built by <=3 (thorough: 4) connects on 3 nodes) x (one operation, every operand) pair of digraph and sync_digraph is executed symbolically from the MIR of the current tree with all edge values as z3 integers; mirror, degree, predicate and lookup agreements are asserted on the pre- and post-state and decided by the solver for every valuation. One inductive step from every bounded state covers histories of any length that stay within the bound.'),
    'C02': ('model_checking', '§6 C02', 'Same exploration on ungraph and sync_ungraph, either endpoint as caller; symmetry is asserted as multiset equality of listed values (equal counts for every value, decided by z3), degrees, is_connected and find_adjacent from both ends.'),
    'C03': ('model_checking', '§6 C03', 'All four flavours: the post-state must equal a list model of the pre-state under the operation (connect appends / inserts exactly one edge, try_connect refuses iff an edge exists, disconnect removes exactly one edge carrying the returned value at both endpoints, isolate removes exactly the incident edges), no path may panic, self-deadlock or exceed the step budget, and a second sweep varies handle provenance (clone, edge endpoint, lookup). Counterexamples are replayed on the native build before they are reported.'),
    'C04': ('model_checking', '§6 C04', 'bfs search_path / search on all four flavours for every graph built by <=3 (thorough 4) connects on 3 nodes (thorough adds 4 nodes unfiltered), every root/target pair, with and without a filter. Edge values are symbolic and the filter is an uninterpreted function F(u,v,e) split by the executor on every examined edge; oracle: Some iff reachable in the accepted graph, path chains root..target through existing accepted edges carrying their values (solver), length = BFS distance.'),
    'C05': ('model_checking', '§6 C05', 'Same exploration for dfs (search_path and the separate search code path): Some iff reachable, valid accepted path, no node twice.'),
    'C06': ('model_checking', '§6 C06', 'pfs min and max on all four flavours with symbolic node values (every order type incl. ties, decided by z3 through the real BinaryHeap sift algorithm calling gdsl partial_cmp): expansion-order monitor from the closure log, path/target oracles with filters. Node/Edge comparison operators additionally by Kani harnesses (engine B) when built.'),
    'C07': ('model_checking', '§6 C07', 'for_each multiset = multiset of edges leaving reachable nodes (z3 equal-count for every triple) for bfs, dfs, pfs min/max, pre/postorder on four flavours; filtered runs assert that only accepted edges appear in paths, cycles and orders.'),
    'C09': ('model_checking', '§6 C09', 'search_cycle for bfs/dfs/pfs on four flavours, filter optional: Some iff a closed accepted path through the root exists; result chains root..root through existing accepted edges, no intermediate node twice, no edge more often than it exists (z3 counts), bfs shortest; undirected: closed walk.'),
    'C10': ('model_checking', '§6 C10', 'preorder/postorder (directed), order().pre()/.post() (undirected), search_nodes and search_edges, filter optional: result is the reachable set once each and is accepted by an exact DFS discovery-order automaton / exact finishing-order recogniser; search_edges gives one existing accepted edge into each non-root node in that order.'),
    'C08': ('model_checking', '§6 C08', 'Differential self-composition on digraph and sync_digraph: the same free connect sequence builds G and, with endpoints swapped, G^R; each of the 16 configurations the API offers ({bfs,dfs,pfs-min,pfs-max} x {search,search_path,search_cycle}, {preorder,postorder} x {search_nodes,search_edges}) runs with transpose() on G and without on G^R with the same symbolic values, node values and filter F; results and closure call sequences must be equal term by term, and every edge handed to a closure must be a reversed incoming (transposed) / an outgoing (plain) edge of its source.'),
    'C15': ('model_checking', '§6 C15', 'Every scenario family of the other checks (node operations and queries with handle provenance, all searches, cycles, orderings with target / transpose / filter / for_each, container and serde scenarios) is executed on the plain flavour and on the sync flavour in one executor path on shared symbolic inputs and shared iteration-order choices; all observations must be equal (z3).'),
    'C20': ('model_checking', '§6 C20', 'A scripted operation (connect, try_connect, disconnect, isolate on any nodes, queries, nested bfs, clone+drop) fires once at a chosen step inside a loop over iter_out / iter_in / iter / `for e in &node` or inside the for_each / filter closure of bfs, dfs, pfs, cycle search and pre/postorder, on all four flavours: no path may panic, self-deadlock on a lock or exceed the step budget, every yielded edge must be an entry of its source\'s current list at that moment (z3), and the C01/C02 invariants must hold afterwards.'),
    'C11': ('model_checking', '§6 C11', 'scc() of digraph and sync_digraph containers over every graph of the bound with the hash map\'s iteration order as a free choice at every next(): the result must be a partition equal to the mutual-reachability classes computed on the out-lists read back through iter_out.'),
    'C18': ('model_checking', '§6 C18', 'Four containers: every history of <=3 (thorough 4) mutating calls (insert of 4 harness nodes incl. a second allocation with an existing key, remove, edge operations on members and non-members) followed by every observer (get, contains, len, is_empty, to_vec, iter, roots, leaves, orphans; index probes) is compared with a dict model; handles must be the inserted allocation; DOT exports are executed through the fmt model and compared line-structurally with the members and their iterated edges and the attributes supplied.'),
    'C12': ('model_checking', '§6 C12', 'Round trip decided at the serde data-model boundary: gdsl\'s real serialize / graph_serde_decompose / visit_seq MIR is executed against a stub Serializer that records the 2-tuple of sequences and a stub SeqAccess that hands it back; node and edge values symbolic, the hash map\'s iteration order a free choice; the rebuilt graph must have the same members, values and per-node out-lists (directed, in order) / incident multisets (undirected). JSON and CBOR are exercised natively on validation scenarios and replays (and must agree), not encoded.'),
    'C13': ('model_checking', '§6 C13', 'Every document visit_seq can be handed within the bound (node list with repeated keys, edge list with undeclared endpoints, either list absent or replaced by an element the format reports as an error) is executed through the real visit_seq MIR: no panic, Err whenever an edge names an undeclared key, Ok graphs satisfy the C01/C02 invariants and contain only nodes and edges of the document. Byte-level parsing is outside.'),
    'C19': ('model_checking', '§6 C19', 'Executor Rc/Arc count model with drop events on all four flavours: for every graph of the bound, optional container membership, optional kept search result (path, node, cycle, node vector, edge vector) and a family of drop orders, the release counter of every node value is compared after every drop with the set of handles still held: never released while held (directly, through the container or through a kept result), kept results stay usable, and released exactly once when the last handle is gone (cycles and self-loops included). Native replays observe releases through a drop-counting payload.'),
    'C16': ('model_checking', '§6 C16', 'Engine C: struct definitions and unsafe impl headers of Node, WeakNode, Adjacent, Edge, Graph, Path are parsed from the current source; Send(T) / Sync(T) are encoded as Boolean functions of the six leaf facts {K,N,E} x {Send,Sync} under std auto-trait axioms with coinduction (post-fixpoint existence); z3 decides each obligation (sync types: trait only if all six and trait if all six; plain types: never) over all 64 assignments at once - a complete decision of the encoded rules. A probe crate compiled against /repo reports rustc\'s actual verdict for every type x assignment (768 rows); any disagreement with the encoder makes the run inconclusive, every counterexample must be confirmed by it.'),
    'C14': ('model_checking', '§6 C14', 'A generated probe crate holds one function per (macro in digraph!/sync_digraph!/ungraph!/sync_ungraph!, each of the 4 signature forms, row/edge-list shape) whose macro arguments are opaque sym_key(i) / sym_val(j) calls; the MIR of the expansions is dumped from rustc and executed with gdsl\'s MIR, so all keys and values are symbolic: row keys assumed distinct, edge targets unconstrained (forward references, self-loops, repeated edges and unlisted keys are chosen by the solver). Oracle: listed nodes with listed values, listed edges in listed order (directed: exact out-lists; undirected: incident multiset and own-row order); otherwise a panic whose rendered message contains an unlisted key. *_node!/*_connect! helpers and the empty invocation have their own probes. Random concrete invocations are compiled and run natively on every run (translator validation) and for every counterexample.'),
    'C17': ('model_checking', '§6 C17', 'Executor in thread mode on sync_digraph and sync_ungraph: one script of calls per thread (connect, try_connect, disconnect, isolate, degree queries, bfs) over every initial graph of the bound; a context switch is a free choice immediately before every RwLock::read / RwLock::write (the only shared accesses), explored exhaustively up to 2 preemptions per schedule under a writer-preferring RwLock model with poisoning. Assertions at every terminal state: no deadlock, no panic / poisoned lock, C01/C02 invariants at quiescence, and final graph plus the mutating calls\' return values equal those of some sequential order of the calls (computed with the same executor, equality by z3). Counterexample schedules are forced on the native build through the --cfg gdsl_verif lock-point hook (fallback: free-running repetition under a watchdog). The non-atomic two-step mutations of the current tree are reported as KNOWN-FINDINGs keyed by role.'),
}
NOTE = 'Trusted base: engine A std models (validated differentially against the native build on every run), rustc MIR dump = compiled code, z3. Bounds in evidence.coverage.bounds.'
TECH = 'bounded symbolic execution of rustc MIR (own executor) + z3; native replay of counterexamples'
TECHS = {'C17': 'bounded symbolic execution of rustc MIR with threads: schedule = free choice before every lock acquisition (<=2 preemptions) + z3; native replay with forced schedule through the lock-point hook', 'C16': 'SAT/SMT (z3) decision of a Boolean auto-trait encoding extracted from the source; rustc probe crate confirms'}
ALL = ['C01', 'C02', 'C03', 'C20', 'C04', 'C05', 'C06', 'C07', 'C08', 'C09', 'C10', 'C11', 'C15', 'C16', 'C17', 'C12', 'C13', 'C14', 'C18', 'C19']

m = {
    'version': 1,
    'setup_cmd': 'cd /verif && CARGO_NET_OFFLINE=true python3-vt symex/build.py',
    'hooks': {
        'guard': '--cfg gdsl_verif',
        'enable': 'RUSTFLAGS="--cfg gdsl_verif" (passed by symex/build.py when a check needs the lock-point hook)',
        'baseline_off_cmd': 'cd /repo && cargo test --workspace --no-fail-fast --offline',
        'source_commits': ['f46c272'],
        'add_only': True,
    },
    'engines': [
        {'name': 'gdsl-symex', 'path': 'symex/', 'serves_properties': sorted(CLAIMED),
         'kind_free_text': 'symbolic executor for rustc MIR text dumps (Python + z3), std modelled, DFS by re-execution, 16 worker processes'},
        {'name': 'auto-trait-encoder', 'path': 'symex/c16.py', 'serves_properties': ['C16'],
         'kind_free_text': 'Boolean encoding of Send/Sync over leaf facts, decided by z3; probe crate compiled by rustc'},
        {'name': 'gdsl-replay', 'path': 'replay/', 'serves_properties': sorted(CLAIMED),
         'kind_free_text': 'native scenario interpreter linked against /repo; confirms counterexamples and validates the std models'},
    ],
    'checks': [],
    'not_applicable': [],
    'notes': 'See DESIGN.md. exit 0 = held within bounds (known findings printed), 1 = confirmed violation, 2 = inconclusive (never a pass).',
}
for pid in ALL:
    if pid in CLAIMED:
        cat, ref, text = CLAIMED[pid]
        m['checks'].append({
            'property_id': pid,
            'quick_cmd': f'bin/check {pid} --tier quick',
            'thorough_cmd': f'bin/check {pid} --tier thorough',
            'evidence_file': f'evidence/{pid}.json',
            'replay_cmd_template': f'bin/check {pid} --replay {{path}}',
            'engine': 'auto-trait-encoder' if pid == 'C16' else 'gdsl-symex',
            'level_claimed': {'category': cat, 'text': text, 'design_ref': ref},
            'level_note': NOTE,
            'technique': TECHS.get(pid, TECH),
        })
    else:
        m['not_applicable'].append({'property_id': pid, 'reason': 'check not built yet in this snapshot (planned with the same technique, see DESIGN.md §6); no claim is made'})
json.dump(m, open('MANIFEST.json', 'w'), indent=1)
print('claimed', len(m['checks']), 'not claimed', len(m['not_applicable']))
